//! Harnesses attached to rodbus/src/tcp/tls/client.rs
#![allow(unused)]
use super::*;

//@ props: C09
//@ fns: tcp::tls::client::<impl From<MinTlsVersion> for sfio_rustls_config::ProtocolVersions>::from
//@ bounds: exhaustive (2 inputs)
//@ outside: handshakes, certificate validation modes, role extraction (rustls / webpki / ring / rx509 crypto and DER parsing are outside CBMC's reach); "no Modbus byte before the handshake succeeds" (async)
/// a minimum version enables exactly the versions at or above it
#[kani::proof]
fn c09_min_version_table() {
    let v13: bool = kani::any();
    let min = if v13 { MinTlsVersion::V1_3 } else { MinTlsVersion::V1_2 };
    let got: ProtocolVersions = min.into();
    let want = if v13 {
        ProtocolVersions::new().enable_v13()
    } else {
        ProtocolVersions::new().enable_v12().enable_v13()
    };
    assert!(got == want, "[C09] minimum TLS version maps to exactly the versions >= it");
    kani::cover!(v13, "min 1.3");
    kani::cover!(!v13, "min 1.2");
}
