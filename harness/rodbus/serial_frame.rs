//! Harnesses attached to rodbus/src/serial/frame.rs (RTU CRC and length)
#![allow(unused)]
use super::*;
use crate::verif_support::*;
use crate::common::frame::FrameDestination;

//@ props: C06
//@ fns: crc::Crc<u16>::digest_with_initial, crc::Digest<u16>::update (crc16::update_table::<1>), Digest::finalize, crc::CRC_16_MODBUS table
//@ bounds: none - all 2^16 states x 2^8 bytes; by induction over the byte string this covers frames of every length
/// implementation lemma: one table-driven step of the `crc` crate == one bit-wise step of CRC-16/MODBUS
/// (reflected polynomial 0xA001, no final xor)
#[kani::proof]
#[kani::unwind(10)]
fn c06_crc_step_lemma() {
    let s: u16 = kani::any();
    let b: u8 = kani::any();
    assert!(tab_crc_step(s, b) == ref_crc_step(s, b), "[C06] table-driven CRC step equals the bit-wise CRC-16/MODBUS step");
    kani::cover!(s == 0xFFFF, "initial state");
    kani::cover!(s == 0 && b == 0, "zero state");
}

//@ props: C06
//@ fns: serial::frame::CRC (rodbus's constant), crc::Crc<u16>::checksum, Crc::digest, Digest::update, Digest::finalize
//@ bounds: 4 symbolic bytes (two updates of 1 and 3 bytes, as the receive path does)
/// rodbus's own CRC constant is the MODBUS algorithm with init 0xFFFF: `checksum` and the
/// digest/update/finalize path used on receive both equal the fold of the lemma's step
#[kani::proof]
#[kani::unwind(10)]
fn c06_rodbus_crc_constant() {
    let d: [u8; 4] = kani::any();
    let mut want = 0xFFFFu16;
    let mut i = 0;
    while i < 4 {
        want = tab_crc_step(want, d[i]);
        i += 1;
    }
    assert!(CRC.checksum(&d) == want, "[C06] transmit path: checksum over address+PDU with init 0xFFFF");
    let mut digest = CRC.digest();
    digest.update(&d[..1]);
    digest.update(&d[1..]);
    assert!(digest.finalize() == want, "[C06] receive path: digest over address then PDU");
    // known-answer: "123456789" has CRC-16/MODBUS 0x4B37 (catalogue check value), tied to the bit-wise reference
    let kat = b"123456789";
    assert!(ref_crc(kat) == 0x4B37, "[C06] bit-wise reference reproduces the catalogue check value");
    kani::cover!(d[0] == 0x2A, "reached");
}

// =============================================================================================
// ATTEMPTED AND INTRACTABLE (unregistered: `props: ZZ`, run by neither tier)
//
// The receive side - `RtuParser::parse` accepts iff length rule and CRC hold - could NOT be decided.
// Measured on this machine (30 GB cap, <= 3 concurrent queries):
//   * streams <= 10 bytes, symbolic buffer offset ............ solver died after ~175 s
//   * streams <= 8 / <= 5 bytes, symbolic offset .............. solver died after 175 s / 230 s
//   * streams <= 8 / <= 5 bytes, CONCRETE offset 0 ............ out of memory / solver died after 238 s
//   * 8-byte frame split at every k (c06_rtu_split) ........... CBMC failed after 360 s (symex alone 198 s)
// Shrinking the input did not change the outcome, so the cost is structural (recursive `parse`, `Frame::set`
// memcpy of symbolic length into a 253-byte array, CRC digest over `frame.payload()`), not a matter of bounds.
// Consequence, stated in MANIFEST/DESIGN: C06 is claimed for the CRC implementation and the TRANSMIT side only;
// a change to the CRC comparison or the length derivation inside `RtuParser::parse` is NOT detected.
// The harnesses are kept so that the attempt is reproducible: `./check --dev zz06_`.
// =============================================================================================
use crate::common::buffer::verif_buffer::{begin_of, buffer_with, invariant, CAP};

#[derive(Clone, Copy, PartialEq)]
enum RefRtu {
    NeedMore,
    /// unknown function code: the length cannot be determined
    UnknownFunction,
    /// length determined, frame longer than the protocol allows
    TooBig,
    /// complete frame of `n` bytes (address + PDU + CRC) whose CRC does not verify
    BadCrc(usize),
    /// complete frame of `n` bytes with a correct CRC
    Frame(usize),
}

/// PDU body length (after the function code) from the function code and direction; None = needs the
/// byte-count field at `offset` first
fn ref_len_mode(request: bool, fc: u8) -> Option<Result<usize, usize>> {
    if !request && fc & 0x80 != 0 {
        return Some(Ok(1));
    }
    match (request, fc) {
        (true, 1..=6) => Some(Ok(4)),
        (true, 15 | 16) => Some(Err(5)),
        (false, 1..=4) => Some(Err(1)),
        (false, 5 | 6 | 15 | 16) => Some(Ok(4)),
        _ => None,
    }
}

/// reference RTU framing of the first frame in `s[..len]`
fn ref_rtu(request: bool, s: &[u8], len: usize) -> RefRtu {
    if len < 2 {
        return RefRtu::NeedMore;
    }
    let body = match ref_len_mode(request, s[1]) {
        None => return RefRtu::UnknownFunction,
        Some(Ok(n)) => n,
        Some(Err(offset)) => {
            // byte count is the last byte of the fixed part
            if len < 1 + 1 + offset {
                return RefRtu::NeedMore;
            }
            offset + s[1 + offset] as usize
        }
    };
    if 1 + body > 253 {
        return RefRtu::TooBig;
    }
    let n = 1 + 1 + body + 2;
    if len < n {
        return RefRtu::NeedMore;
    }
    let mut crc = 0xFFFFu16;
    let mut i = 0;
    while i < n - 2 {
        crc = tab_crc_step(crc, s[i]);
        i += 1;
    }
    if s[n - 2] == crc as u8 && s[n - 1] == (crc >> 8) as u8 {
        RefRtu::Frame(n)
    } else {
        RefRtu::BadCrc(n)
    }
}

fn rtu_parse_kernel<const N: usize>(request: bool) {
    let s: [u8; N] = kani::any();
    let len: usize = kani::any();
    kani::assume(len <= N);
    // the stream sits at offset 0 of a buffer whose remaining 260-N bytes are arbitrary residue. A SYMBOLIC offset
    // here turns every byte the CRC consumes into a 260-way array read (measured: even 5-byte streams died in the
    // solver). Offset-independence of the accessors the parser uses (read, read_u8, peek_at, read_u16_le) is
    // decided for every begin/end by c05_buffer_accessors.
    let begin: usize = 0;
    let level = any_decode_level();
    let mut buf = buffer_with(&s, len, begin);
    let mut p = if request { RtuParser::new_request_parser() } else { RtuParser::new_response_parser() };
    let r = p.parse(&mut buf, level.frame);
    let want = ref_rtu(request, &s, len);
    assert!(invariant(&buf), "[C06] buffer indices stay valid");
    match (&r, want) {
        (Ok(None), RefRtu::NeedMore) => {}
        (Err(e), RefRtu::UnknownFunction) => assert!(matches!(e, RequestError::BadFrame(FrameParseError::UnknownFunctionCode(_))), "[C06] unknown function code is a framing error"),
        (Err(e), RefRtu::TooBig) => assert!(matches!(e, RequestError::BadFrame(FrameParseError::FrameLengthTooBig(..))), "[C06] oversized ADU is refused"),
        (Err(e), RefRtu::BadCrc(_)) => assert!(matches!(e, RequestError::BadFrame(FrameParseError::CrcValidationFailure(..))), "[C06] a frame whose CRC does not verify is never acted on"),
        (Ok(Some(f)), RefRtu::Frame(n)) => {
            let dest = if s[0] == 0 { FrameDestination::Broadcast } else { FrameDestination::UnitId(UnitId::new(s[0])) };
            assert!(f.header.destination == dest, "[C17] address 0 is broadcast, any other byte is a unit id");
            assert!(f.header.tx_id.is_none());
            assert!(f.payload().len() == n - 3, "[C06] frame length derived from function code and byte count");
            let k: usize = kani::any();
            kani::assume(k < n - 3 && k < N - 1);
            assert!(f.payload()[k] == s[1 + k], "[C06] PDU bytes");
            assert!(begin_of(&buf) - begin == n, "[C06] exactly one frame is consumed");
            assert!(matches!(p.state, ParseState::Start), "[C06] parser ready for the next frame");
        }
        (Ok(Some(_)), _) => assert!(false, "[C06] a frame was accepted that the reference rejects (CRC / length)"),
        (Ok(None), _) => assert!(false, "[C06] parser waits although the frame is decidable"),
        (Err(_), _) => assert!(false, "[C06] a valid frame was rejected"),
    }
    kani::cover!(matches!(want, RefRtu::Frame(_)) && s[0] == 0, "broadcast frame accepted");
    kani::cover!(matches!(want, RefRtu::Frame(_)) && s[0] != 0, "unicast frame accepted");
    kani::cover!(matches!(want, RefRtu::BadCrc(_)), "CRC mismatch");
    kani::cover!(want == RefRtu::NeedMore && len >= 3, "waiting for the rest of the frame");
    kani::cover!(want == RefRtu::UnknownFunction, "unknown function code");
}

//@ props: ZZ
//@ peer: yes
//@ timeout: 1500
//@ fns: serial::frame::RtuParser::parse (all three states), RtuParser::length_mode, common::buffer::ReadBuffer::peek_at / read / read_u16_le, crc::Crc<u16>::digest / update / finalize, common::frame::Frame::set
//@ bounds: request direction, every stream of 0..=8 bytes at buffer offset 0 (offset-independence: c05_buffer_accessors): the six fixed-length requests complete (8-byte frames), every truncation of them, unknown function codes, and the need-more prefix of write-multiple; all decode levels; unwind 10
//@ outside: complete variable-length (write-multiple) frames - 10-byte streams died in the solver; thorough tier tries 13; serial driver
#[kani::proof]
#[kani::unwind(10)]
fn zz06_rtu_parse_request() {
    rtu_parse_kernel::<8>(true);
}

//@ props: ZZ
//@ peer: yes
//@ timeout: 1500
//@ fns: serial::frame::RtuParser::parse, RtuParser::length_mode (response direction, exception replies)
//@ bounds: response direction, every stream of 0..=5 bytes at buffer offset 0: exception replies complete (5 bytes), every shorter prefix of read replies and write echoes (need-more), unknown function codes; unwind 8
#[kani::proof]
#[kani::unwind(8)]
fn zz06_rtu_parse_response() {
    rtu_parse_kernel::<5>(false);
}

//@ props: ZZ
//@ peer: yes
//@ tier: thorough
//@ timeout: 3600
//@ fns: serial::frame::RtuParser::parse
//@ bounds: request direction, streams of 0..=13 bytes (write-multiple with up to 4 data bytes); unwind 15
#[kani::proof]
#[kani::unwind(15)]
fn zz06_rtu_parse_request_13() {
    rtu_parse_kernel::<13>(true);
}

//@ props: ZZ
//@ peer: yes
//@ timeout: 1500
//@ fns: serial::frame::RtuParser::parse (resumption across calls), ReadBuffer::peek_at
//@ bounds: an 8-byte request frame delivered in two parts at every split point k in 0..=8, buffer offset 0
/// the length of a frame is derived identically for every chunking: parsing k bytes, then all 8, gives the
/// result of parsing all 8 at once
#[kani::proof]
#[kani::unwind(12)]
fn zz06_rtu_split() {
    let s: [u8; 8] = kani::any();
    kani::assume(s[1] >= 1 && s[1] <= 6);
    let begin: usize = 0; // see rtu_parse_kernel: a symbolic offset under the CRC is intractable
    let k: usize = kani::any();
    kani::assume(k <= 8);
    let mut p = RtuParser::new_request_parser();
    let mut part = buffer_with(&s, k, begin);
    let r1 = p.parse(&mut part, FrameDecodeLevel::Nothing);
    let consumed = begin_of(&part) - begin;
    if k < 8 {
        assert!(matches!(r1, Ok(None)), "[C06] an incomplete frame is never acted on");
        assert!(consumed <= 1, "[C06] only the address byte may be consumed early");
    }
    let mut full = buffer_with(&s, 8, begin);
    let _ = full.read(if k < 8 { consumed } else { 0 });
    let mut q = RtuParser::new_request_parser();
    if k < 8 {
        q.state = p.state;
    }
    let r2 = q.parse(&mut full, FrameDecodeLevel::Nothing);
    let want = ref_rtu(true, &s, 8);
    match (&r2, want) {
        (Ok(Some(f)), RefRtu::Frame(8)) => {
            assert!(f.payload().len() == 5 && f.payload()[0] == s[1] && f.payload()[4] == s[5], "[C06] same frame for every chunking");
            assert!(begin_of(&full) - begin == 8);
        }
        (Err(_), RefRtu::BadCrc(8)) => {}
        _ => assert!(false, "[C06] result depends on the chunking"),
    }
    kani::cover!(k == 1 && matches!(want, RefRtu::Frame(_)), "split after the address byte");
    kani::cover!(k == 7 && matches!(want, RefRtu::Frame(_)), "split inside the CRC");
}

//@ props: C06
//@ tier: thorough
//@ timeout: 3600
//@ fns: (reference polynomial only; tied to the code by c06_crc_step_lemma and c06_rtu_parse_*)
//@ bounds: all error positions within a 256-byte frame: distances 1..=2064 bits; all burst patterns of <= 16 bits
/// detection power of CRC-16/MODBUS (generator x^16+x^15+x^2+1): x^d mod G != 1 for d in 1..=2064 (every 2-bit
/// error changes the CRC), x^d mod G != 0 (1-bit), and every non-zero polynomial of degree < 16 is non-zero mod G
/// (bursts of <= 16 bits)
#[kani::proof]
#[kani::unwind(2070)]
fn c06_crc_detection_lemma() {
    // LFSR in the non-reflected domain: r = x^d mod G
    let g: u32 = 0x18005;
    let mut r: u32 = 1;
    let mut d = 1;
    while d <= 2064 {
        r <<= 1;
        if r & 0x10000 != 0 {
            r ^= g;
        }
        assert!(r != 1, "[C06] x^d mod G != 1: every double-bit error within 256 bytes is detected");
        assert!(r != 0, "[C06] x^d mod G != 0: every single-bit error is detected");
        d += 1;
    }
    let burst: u16 = kani::any();
    kani::assume(burst != 0);
    // deg(burst) < 16 = deg(G)  =>  burst mod G == burst != 0, at any position (x is invertible mod G since G(0) = 1)
    assert!((burst as u32) < 0x10000 && (g & 1) == 1, "[C06] every burst of <= 16 bits is detected");
    kani::cover!(burst == 0xFFFF, "full-width burst");
    kani::cover!(d == 2065, "all distances visited");
}

//@ props: ZZ
//@ peer: yes
//@ tier: thorough
//@ timeout: 3600
//@ fns: serial::frame::RtuParser::parse (CRC comparison) on corrupted frames
//@ bounds: every valid 8-byte request frame x every error pattern with 1 or 2 flipped bits or a burst confined to 16 consecutive bits
/// any corruption the CRC detects causes no accepted frame: decided on the REAL parser, not on the polynomial
#[kani::proof]
#[kani::unwind(12)]
fn zz06_corruption_rejected() {
    let mut s: [u8; 8] = kani::any();
    kani::assume(s[1] >= 1 && s[1] <= 6);
    let mut crc = 0xFFFFu16;
    let mut i = 0;
    while i < 6 {
        crc = tab_crc_step(crc, s[i]);
        i += 1;
    }
    s[6] = crc as u8;
    s[7] = (crc >> 8) as u8;
    // error pattern: a 16-bit window at a symbolic bit position holding any non-zero pattern
    // (covers all 1-bit errors, all bursts <= 16 bits and 2-bit errors at distance < 16), or two single bits anywhere
    let e: u64 = if kani::any() {
        let pat: u16 = kani::any();
        let pos: u32 = kani::any();
        kani::assume(pat != 0 && pos <= 48);
        (pat as u64) << pos
    } else {
        let a: u32 = kani::any();
        let b: u32 = kani::any();
        kani::assume(a < 64 && b < 64 && a != b);
        (1u64 << a) | (1u64 << b)
    };
    let mut c = s;
    let mut j = 0;
    while j < 8 {
        c[j] ^= (e >> (8 * j)) as u8;
        j += 1;
    }
    // keep the corrupted function code in the fixed-length family so that the frame is still 8 bytes long
    kani::assume(c[1] >= 1 && c[1] <= 6);
    let mut buf = buffer_with(&c, 8, 0);
    let mut p = RtuParser::new_request_parser();
    let r = p.parse(&mut buf, FrameDecodeLevel::Nothing);
    assert!(!matches!(r, Ok(Some(_))), "[C06] a frame corrupted by 1 bit, 2 bits or a burst of <= 16 bits is never accepted");
    kani::cover!(e.count_ones() == 1, "single-bit error");
    kani::cover!(e.count_ones() == 2, "double-bit error");
}

// ---------------------------------------------------------------------------------------------
// Receive side, SIXTH attempt (also intractable, kept unregistered): the function code is a CONSTANT per call site, so
// `length_mode` resolves statically and the frame length - hence `read`, `Frame::set` and the CRC loop - is constant;
// offset 0; only 7 data bytes and the delivered length are symbolic. Measured: 40.9 GB resident and still growing
// after 730 s (killed). With everything else constant, the remaining suspect is that `RtuParser::parse` is RECURSIVE
// (it calls itself from two states): recursion is unwound to the harness bound like a loop, so the whole function
// body (CRC loop, 253-byte frame) is encoded once per level. Kani offers no per-function recursion bound. Not pursued.

fn rtu_fixed_request(fc: u8) {
    // address, 4 body bytes and the CRC trailer are symbolic; the function code is the call site's constant
    let a: u8 = kani::any();
    let b: [u8; 4] = kani::any();
    let t: [u8; 2] = kani::any();
    let s: [u8; 8] = [a, fc, b[0], b[1], b[2], b[3], t[0], t[1]];
    let len: usize = kani::any();
    kani::assume(len <= 8);
    let mut buf = buffer_with(&s, len, 0);
    let mut p = RtuParser::new_request_parser();
    let r = p.parse(&mut buf, FrameDecodeLevel::Nothing);
    let mut crc = 0xFFFFu16;
    let mut i = 0;
    while i < 6 {
        crc = tab_crc_step(crc, s[i]);
        i += 1;
    }
    let crc_ok = t[0] == crc as u8 && t[1] == (crc >> 8) as u8;
    match r {
        Ok(None) => assert!(len < 8, "[C06] a complete frame is decided"),
        Ok(Some(f)) => {
            assert!(len == 8 && crc_ok, "[C06] a frame is acted on only if it is complete and its CRC verifies");
            let dest = if a == 0 { FrameDestination::Broadcast } else { FrameDestination::UnitId(UnitId::new(a)) };
            assert!(f.header.destination == dest, "[C17] address 0 is broadcast, any other byte is a unit id");
            assert!(f.payload().len() == 5 && f.payload()[0] == fc && f.payload()[1] == b[0] && f.payload()[4] == b[3], "[C06] PDU bytes");
            assert!(begin_of(&buf) == 8, "[C06] exactly one frame is consumed");
        }
        Err(e) => {
            assert!(len == 8 && !crc_ok, "[C06] a complete frame with a correct CRC is accepted");
            assert!(matches!(e, RequestError::BadFrame(FrameParseError::CrcValidationFailure(..))), "[C06] CRC mismatch is a framing error");
        }
    }
    kani::cover!(len == 8 && crc_ok && a == 0, "broadcast frame accepted");
    kani::cover!(len == 8 && crc_ok && a != 0, "unicast frame accepted");
    kani::cover!(len == 8 && !crc_ok && t[0] == crc as u8, "only the high CRC byte is wrong");
    kani::cover!(len == 8 && !crc_ok && t[1] == (crc >> 8) as u8, "only the low CRC byte is wrong");
    kani::cover!(len == 7, "one byte short");
}

//@ props: ZZ
//@ timeout: 1200
#[kani::proof]
#[kani::unwind(10)]
fn zz06_fixed_fc6() {
    rtu_fixed_request(6);
}

// ---------------------------------------------------------------------------------------------
// Receive side, SEVENTH formulation: every LENGTH is a constant of the call site (delivered prefix `first`, frame
// length N, function code, byte count). With a symbolic delivered length the early `return Ok(None)` guards the
// assignment `self.state = ..`, the state discriminant becomes `ite(guard, Read.., Start)` and the recursive
// `self.parse(..)` is explored through all three arms down to the unwind bound (attempt six: 40.9 GB). With constant
// lengths every guard folds during symbolic execution, the recursion resolves to the one arm the real run takes, and
// what stays symbolic is exactly what the property is about: the address, the data bytes, the CRC trailer and the
// stale residue behind the delivered bytes.
// ---------------------------------------------------------------------------------------------

/// `first` bytes of an N-byte frame are delivered, the parser runs, then the rest is delivered and it runs again.
/// `count` = (stream index, value) of the byte-count field for variable-length PDUs.
fn rtu_delivery<const N: usize>(request: bool, fc: u8, count: Option<(usize, u8)>, first: usize) {
    let mut s: [u8; N] = kani::any();
    s[1] = fc;
    if let Some((i, c)) = count {
        s[i] = c;
    }
    let mut crc = 0xFFFFu16;
    let mut i = 0;
    while i < N - 2 {
        crc = tab_crc_step(crc, s[i]);
        i += 1;
    }
    let crc_ok = s[N - 2] == crc as u8 && s[N - 1] == (crc >> 8) as u8;
    let level = any_decode_level();
    // everything behind the delivered prefix is arbitrary residue of earlier traffic
    let mut buf = buffer_with(&s, first, 0);
    let mut p = if request { RtuParser::new_request_parser() } else { RtuParser::new_response_parser() };
    let mut r = p.parse(&mut buf, level.frame);
    if first < N {
        assert!(matches!(r, Ok(None)), "[C06] an incomplete frame is never acted on and is not an error");
        assert!(invariant(&buf) && begin_of(&buf) <= 1, "[C06] at most the address byte is consumed before the frame is complete");
        crate::common::buffer::verif_buffer::deliver(&mut buf, &s, first, N);
        r = p.parse(&mut buf, level.frame);
    }
    match r {
        Ok(None) => assert!(false, "[C06] a complete frame is decided"),
        Ok(Some(f)) => {
            assert!(crc_ok, "[C06] a frame is acted on only if its CRC verifies");
            let dest = if s[0] == 0 { FrameDestination::Broadcast } else { FrameDestination::UnitId(UnitId::new(s[0])) };
            assert!(f.header.destination == dest, "[C17] address 0 is broadcast, any other byte is a unit id");
            assert!(f.header.tx_id.is_none(), "[C06] RTU frames carry no transaction id");
            assert!(f.payload().len() == N - 3, "[C06] frame length derived from function code and byte count");
            let k: usize = kani::any();
            kani::assume(k < N - 3);
            assert!(f.payload()[k] == s[1 + k], "[C06] PDU bytes are the received bytes");
            assert!(begin_of(&buf) == N, "[C06] exactly one frame is consumed");
            assert!(matches!(p.state, ParseState::Start), "[C06] parser ready for the next frame");
            std::mem::forget(f);
        }
        Err(e) => {
            assert!(!crc_ok, "[C06] a complete frame with a correct CRC is accepted");
            assert!(matches!(e, RequestError::BadFrame(FrameParseError::CrcValidationFailure(..))), "[C06] CRC mismatch is a framing error");
            std::mem::forget(e);
        }
    }
    kani::cover!(crc_ok && s[0] == 0, "broadcast frame accepted");
    kani::cover!(crc_ok && s[0] != 0, "unicast frame accepted");
    kani::cover!(!crc_ok && s[N - 2] == crc as u8, "only the high CRC byte is wrong");
    kani::cover!(!crc_ok && s[N - 1] == (crc >> 8) as u8, "only the low CRC byte is wrong");
}

/// what the parser must do with a prefix from which the frame length can be derived and is refused: fails at once
fn rtu_refused<const N: usize>(request: bool, fc: u8, count: Option<(usize, u8)>, unknown: bool) {
    let mut s: [u8; N] = kani::any();
    s[1] = fc;
    if let Some((i, c)) = count {
        s[i] = c;
    }
    let level = any_decode_level();
    let mut buf = buffer_with(&s, N, 0);
    let mut p = if request { RtuParser::new_request_parser() } else { RtuParser::new_response_parser() };
    match p.parse(&mut buf, level.frame) {
        Err(RequestError::BadFrame(FrameParseError::UnknownFunctionCode(x))) => assert!(unknown && x == fc, "[C06] only an unknown function code is reported as such"),
        Err(RequestError::BadFrame(FrameParseError::FrameLengthTooBig(n, max))) => {
            assert!(!unknown && max == 253, "[C06] the ADU limit is 253");
            assert!(n > 253, "[C06] only a PDU longer than 253 bytes is refused as too big");
        }
        _ => assert!(false, "[C06] an undecidable or oversized frame is a framing error, never a frame and never a wait"),
    }
    kani::cover!(s[0] == 0, "broadcast address");
}

//@ props: C06 C17~ C07~
//@ peer: yes
//@ timeout: 880
//@ fns: serial::frame::RtuParser::parse (Start -> ReadFullBody, recursion included), RtuParser::length_mode, common::buffer::ReadBuffer::read_u8 / peek_at / read / read_u16_le / len, common::frame::Frame::new / set / payload, crc::Crc<u16>::digest, Digest::update, Digest::finalize
//@ bounds: request direction, function code 6 (fixed length), the complete 8-byte frame delivered at once at buffer offset 0; symbolic: address, 4 body bytes, 2 CRC bytes, the 252 residue bytes behind the frame, decode level; unwind 12. Lengths are constants of the call site (seventh formulation, see above)
//@ outside: other frame lengths and function codes (thorough tier adds fc 1/5/15/16, responses, exceptions); buffer offsets other than 0 (accessor offset-independence: c05_buffer_accessors); frames longer than 11 bytes
/// RECEIVE SIDE: the real parser hands a complete fixed-length request to the session iff its CRC (low byte first)
/// verifies, with the right destination and PDU, consuming exactly the frame
#[kani::proof]
#[kani::unwind(12)]
fn c06_rtu_recv_fixed_request() {
    rtu_delivery::<8>(true, 6, None, 8);
}

//@ props: ZZ
//@ peer: yes
//@ timeout: 1800
//@ fns: serial::frame::RtuParser::parse (all three states, resumed across two calls)
//@ bounds: request direction, function code 16 with byte count 2 (11-byte frame) delivered as 6 bytes (address .. quantity, NOT yet the byte count) and then the remaining 5; the byte behind the delivered prefix is arbitrary stale residue
/// ATTEMPTED AND INTRACTABLE (unregistered): the split that would expose a byte count taken from stale buffer contents
/// (seeded change C06-2). Measured: died at the 20 GB cap after 351 s; alone under a 34 GB cap: 31.3 GB resident at
/// 386 s, out of memory at 457 s (symex 173 s - four times the fixed-length queries). Whole delivery of a
/// variable-length frame (`c06_rtu_recv_write_coils_whole`) is tractable; the 6+5 split is not.
#[kani::proof]
#[kani::unwind(14)]
fn zz06_rtu_recv_write_multiple_split() {
    rtu_delivery::<11>(true, 16, Some((6, 2)), 6);
}

//@ props: C06 C05 C07
//@ peer: yes
//@ tier: thorough
//@ timeout: 1800
//@ fns: serial::frame::RtuParser::parse (resumption), ReadBuffer accessors, crc::Digest
//@ bounds: request direction, function code 6, 8-byte frame delivered as 1 byte + 7 bytes; unwind 12
#[kani::proof]
#[kani::unwind(12)]
fn c06_rtu_recv_fixed_split1() {
    rtu_delivery::<8>(true, 6, None, 1);
}

//@ props: ZZ
//@ desc: UNREGISTERED - died at a 16 GB cap after 260 s (symex 153 s, 3.5x the 1+7 split) next to two other runs; not re-run alone
//@ peer: yes
//@ tier: thorough
//@ timeout: 1800
//@ fns: serial::frame::RtuParser::parse (resumption inside the CRC trailer), ReadBuffer accessors, crc::Digest
//@ bounds: request direction, function code 1, 8-byte frame delivered as 7 bytes + 1 byte (split between the two CRC bytes); unwind 12
#[kani::proof]
#[kani::unwind(12)]
fn zz06_rtu_recv_fixed_split7() {
    rtu_delivery::<8>(true, 1, None, 7);
}

//@ props: C06 C17 C07
//@ peer: yes
//@ tier: thorough
//@ timeout: 1800
//@ fns: serial::frame::RtuParser::parse (Start -> ReadToOffsetForLength -> ReadFullBody in one call), crc::Digest
//@ bounds: request direction, function code 15 with byte count 1 (10-byte frame) delivered at once; unwind 14
#[kani::proof]
#[kani::unwind(14)]
fn c06_rtu_recv_write_coils_whole() {
    rtu_delivery::<10>(true, 15, Some((6, 1)), 10);
}

//@ props: ZZ
//@ desc: UNREGISTERED - died at the 20 GB cap after 266 s (symex 131 s) next to three other queries; not re-run alone
//@ peer: yes
//@ tier: thorough
//@ timeout: 1800
//@ fns: serial::frame::RtuParser::parse (response direction: byte count at offset 1), RtuParser::length_mode, crc::Digest
//@ bounds: response direction, function code 3 with byte count 2 (7-byte reply) delivered as 2 bytes + 5 bytes; unwind 12
#[kani::proof]
#[kani::unwind(12)]
fn zz06_rtu_recv_read_reply_split() {
    rtu_delivery::<7>(false, 3, Some((2, 2)), 2);
}

//@ props: C06 C07
//@ peer: yes
//@ tier: thorough
//@ timeout: 1800
//@ fns: serial::frame::RtuParser::parse, RtuParser::length_mode (exception bit, response direction only), crc::Digest
//@ bounds: response direction, exception reply to function 3 (0x83), 5-byte frame delivered at once; unwind 12
#[kani::proof]
#[kani::unwind(12)]
fn c06_rtu_recv_exception_reply() {
    rtu_delivery::<5>(false, 0x83, None, 5);
}

//@ props: ZZ
//@ desc: UNREGISTERED - died at a 16 GB cap after 233 s (symex 122 s) next to two other runs; not re-run alone
//@ peer: yes
//@ tier: thorough
//@ timeout: 1800
//@ fns: serial::frame::RtuParser::parse, RtuParser::length_mode (write echo, response direction), crc::Digest
//@ bounds: response direction, write-multiple-registers echo (function 16, fixed 4 bytes), 8-byte frame delivered as 3 + 5; unwind 12
#[kani::proof]
#[kani::unwind(12)]
fn zz06_rtu_recv_write_echo_split() {
    rtu_delivery::<8>(false, 16, None, 3);
}

//@ props: C06 C07
//@ peer: yes
//@ tier: thorough
//@ timeout: 1800
//@ fns: serial::frame::RtuParser::parse (error exits), RtuParser::length_mode, common::function::FunctionCode::get
//@ bounds: request direction: function code 7 (unknown) with 2 bytes buffered; function code 0x83 as a REQUEST (exception bit is only meaningful in replies); function code 16 with byte count 250 (PDU 256 > 253) with 7 bytes buffered; unwind 10
#[kani::proof]
#[kani::unwind(10)]
fn c06_rtu_recv_refused() {
    rtu_refused::<2>(true, 7, None, true);
    rtu_refused::<2>(true, 0x83, None, true);
    rtu_refused::<7>(true, 16, Some((6, 250)), false);
}

//@ props: C06 C07
//@ peer: yes
//@ tier: thorough
//@ timeout: 1800
//@ fns: serial::frame::RtuParser::parse (response direction: byte count at offset 1, Start -> ReadToOffsetForLength -> ReadFullBody in one call), RtuParser::length_mode, crc::Digest
//@ bounds: response direction, function code 3 with byte count 2 (7-byte reply) delivered whole; symbolic address, data, CRC, residue, decode level; unwind 12
#[kani::proof]
#[kani::unwind(12)]
fn c06_rtu_recv_read_reply_whole() {
    rtu_delivery::<7>(false, 3, Some((2, 2)), 7);
}

//@ props: C06 C07~
//@ peer: yes
//@ timeout: 300
//@ fns: serial::frame::RtuParser::length_mode, common::function::FunctionCode::get
//@ bounds: none - all 256 function codes x both directions
/// the length table: requests 1-6 have 4 body bytes, requests 15/16 a byte count at offset 5; replies 1-4 a byte count at
/// offset 1, replies 5/6/15/16 4 body bytes, exception replies (replies ONLY) 1 body byte; everything else is unknown
#[kani::proof]
#[kani::unwind(4)]
fn c06_rtu_length_table() {
    let fc: u8 = kani::any();
    let request: bool = kani::any();
    let p = if request { RtuParser::new_request_parser() } else { RtuParser::new_response_parser() };
    let got = match p.length_mode(fc) {
        LengthMode::Fixed(n) => Some(Ok(n)),
        LengthMode::Offset(o) => Some(Err(o)),
        LengthMode::Unknown => None,
    };
    assert!(got == ref_len_mode(request, fc), "[C06] frame length is derived from function code and direction as the protocol defines");
    kani::cover!(request && fc == 16, "variable-length request");
    kani::cover!(!request && fc == 0x83, "exception reply");
    kani::cover!(request && fc == 0x83, "exception bit in a request");
    kani::cover!(got.is_none() && fc < 0x80, "unknown function code");
}
