//! Harnesses attached to rodbus/src/serial/frame.rs (RTU CRC and length)
#![allow(unused)]
use super::*;
use crate::verif_support::*;

//@ props: C06
//@ fns: crc::Crc<u16>::digest_with_initial, crc::Digest<u16>::update (crc16::update_table::<1>), Digest::finalize, crc::CRC_16_MODBUS table
//@ bounds: none - all 2^16 states x 2^8 bytes; by induction over the byte string this covers frames of every length
/// implementation lemma: one table-driven step of the `crc` crate == one bit-wise step of CRC-16/MODBUS
/// (reflected polynomial 0xA001, no final xor)
#[kani::proof]
#[kani::unwind(10)]
fn c06_crc_step_lemma() {
    let s: u16 = kani::any();
    let b: u8 = kani::any();
    assert!(tab_crc_step(s, b) == ref_crc_step(s, b), "[C06] table-driven CRC step equals the bit-wise CRC-16/MODBUS step");
    kani::cover!(s == 0xFFFF, "initial state");
    kani::cover!(s == 0 && b == 0, "zero state");
}

//@ props: C06
//@ fns: serial::frame::CRC (rodbus's constant), crc::Crc<u16>::checksum, Crc::digest, Digest::update, Digest::finalize
//@ bounds: 4 symbolic bytes (two updates of 1 and 3 bytes, as the receive path does)
/// rodbus's own CRC constant is the MODBUS algorithm with init 0xFFFF: `checksum` and the
/// digest/update/finalize path used on receive both equal the fold of the lemma's step
#[kani::proof]
#[kani::unwind(10)]
fn c06_rodbus_crc_constant() {
    let d: [u8; 4] = kani::any();
    let mut want = 0xFFFFu16;
    let mut i = 0;
    while i < 4 {
        want = tab_crc_step(want, d[i]);
        i += 1;
    }
    assert!(CRC.checksum(&d) == want, "[C06] transmit path: checksum over address+PDU with init 0xFFFF");
    let mut digest = CRC.digest();
    digest.update(&d[..1]);
    digest.update(&d[1..]);
    assert!(digest.finalize() == want, "[C06] receive path: digest over address then PDU");
    // known-answer: "123456789" has CRC-16/MODBUS 0x4B37 (catalogue check value), tied to the bit-wise reference
    let kat = b"123456789";
    assert!(ref_crc(kat) == 0x4B37, "[C06] bit-wise reference reproduces the catalogue check value");
    kani::cover!(d[0] == 0x2A, "reached");
}
