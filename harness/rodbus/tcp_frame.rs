//! Harnesses attached to rodbus/src/tcp/frame.rs (MBAP parser) — C05
#![allow(unused)]
use super::*;
use crate::common::buffer::verif_buffer::{begin_of, buffer_with, extend, invariant, CAP};
use crate::common::frame::{FrameDestination, FramedReader};
use crate::verif_support::*;

#[derive(Clone, Copy, PartialEq)]
enum RefMbap {
    NeedMore,
    Bad,
    /// (tx id, unit id, adu length): the frame is bytes 7 .. 7+adu
    Frame(u16, u8, usize),
}

/// reference MBAP framing of the first frame of a byte stream
fn ref_mbap(s: &[u8], len: usize) -> RefMbap {
    if len < 7 {
        return RefMbap::NeedMore;
    }
    let proto = be16(s[2], s[3]);
    let l = be16(s[4], s[5]) as usize;
    if proto != 0 || l == 0 || l > 254 {
        return RefMbap::Bad;
    }
    if len - 7 < l - 1 {
        return RefMbap::NeedMore;
    }
    RefMbap::Frame(be16(s[0], s[1]), s[6], l - 1)
}

fn check_result<const N: usize>(r: &Result<Option<Frame>, RequestError>, want: RefMbap, s: &[u8; N]) {
    match (r, want) {
        (Ok(None), RefMbap::NeedMore) => {}
        (Err(e), RefMbap::Bad) => {
            assert!(matches!(e, RequestError::BadFrame(_)), "[C05] a malformed header is a framing error (ends the session)");
        }
        (Ok(Some(f)), RefMbap::Frame(tx, unit, adu)) => {
            assert!(f.header.tx_id.map(|t| t.to_u16()) == Some(tx), "[C05] transaction id from the header");
            assert!(f.header.destination == FrameDestination::UnitId(UnitId::new(unit)), "[C05] unit id from the header");
            assert!(f.payload().len() == adu, "[C05] frame boundary depends only on the length field");
            let k: usize = kani::any();
            kani::assume(k < adu && k < N - 7);
            assert!(f.payload()[k] == s[7 + k], "[C05] frame body is exactly the bytes after the header");
        }
        (Ok(None), _) => assert!(false, "[C05] parser asks for more although the frame / the error is decidable"),
        (Err(_), _) => assert!(false, "[C05] a well-formed header is rejected"),
        (Ok(Some(_)), _) => assert!(false, "[C05] a frame is produced from an incomplete or malformed stream"),
    }
}

fn parser_split<const N: usize>(any_offset: bool) {
    let s: [u8; N] = kani::any();
    let len: usize = kani::any();
    kani::assume(len <= N);
    // any_offset: the stream sits at EVERY offset of the 260-byte array (650-980 s, thorough tier);
    // otherwise at offset 0 - the accessors the parser uses are decided for every offset by c05_buffer_accessors
    let begin: usize = if any_offset { kani::any() } else { 0 };
    kani::assume(begin <= CAP && len <= CAP - begin);
    // first the parser sees only k bytes, then the rest: the result must be that of the whole stream
    let k: usize = kani::any();
    kani::assume(k <= len);
    let level = any_decode_level();
    let mut buf = buffer_with(&s, k, begin);
    let mut p = MbapParser::new();
    let r1 = p.parse(&mut buf, level.frame);
    let w1 = ref_mbap(&s, k);
    check_result(&r1, w1, &s);
    assert!(invariant(&buf), "[C05] buffer indices stay valid");
    match w1 {
        RefMbap::NeedMore => {
            // deliver the rest: same backing bytes, more of them visible
            let consumed = begin_of(&buf) - begin;
            assert!(consumed == 0 || consumed == 7, "[C05] only a complete header is consumed early");
            let mut buf2 = buffer_with(&s, len, begin);
            // carry over what the first call consumed and the parser state
            let _ = buf2.read(consumed);
            let r2 = p.parse(&mut buf2, level.frame);
            let w2 = ref_mbap(&s, len);
            check_result(&r2, w2, &s);
            if let RefMbap::Frame(_, _, adu) = w2 {
                assert!(begin_of(&buf2) - begin == 7 + adu, "[C05] exactly header + body are consumed; following bytes stay buffered");
                assert!(matches!(p.state, ParseState::Begin), "[C05] parser is ready for the next frame");
            }
            kani::cover!(matches!(w2, RefMbap::Frame(..)) && k > 0 && k < 7, "split inside the header, frame completed later");
            kani::cover!(matches!(w2, RefMbap::Frame(_, _, a) if a >= 2) && k > 7, "split inside the body");
            kani::cover!(w2 == RefMbap::Bad, "bad header after a partial delivery");
        }
        RefMbap::Frame(_, _, adu) => {
            assert!(begin_of(&buf) - begin == 7 + adu, "[C05] exactly header + body are consumed");
            kani::cover!(k < len, "frame complete with trailing bytes left buffered");
        }
        RefMbap::Bad => {
            kani::cover!(be16(s[2], s[3]) != 0, "non-zero protocol id");
            kani::cover!(be16(s[2], s[3]) == 0 && be16(s[4], s[5]) == 0, "zero length");
            kani::cover!(be16(s[2], s[3]) == 0 && be16(s[4], s[5]) == 255, "length 255");
        }
    }
}

//@ props: C05 C07~ C20~
//@ peer: yes
//@ tier: thorough
//@ timeout: 3600
//@ fns: tcp::frame::MbapParser::parse, MbapParser::parse_header, MbapParser::parse_body, common::buffer::ReadBuffer::read / read_u8 / read_u16_be / len, common::frame::Frame::set
//@ bounds: every stream of 0..=10 bytes placed at EVERY offset of the 260-byte buffer (arbitrary residue elsewhere), every split point k of the delivery, all decode levels; frames with up to 3 body bytes complete within the bound; unwind 14
//@ outside: bodies longer than 3 bytes in the quick tier (thorough: 12-byte streams; c05_parser_max_frame covers the 253-byte body); TLS record layer
#[kani::proof]
#[kani::unwind(14)]
fn c05_parser_split_any_offset_t() {
    parser_split::<10>(true);
}

//@ props: C05 C07 C20
//@ peer: yes
//@ tier: thorough
//@ timeout: 3600
//@ fns: tcp::frame::MbapParser::parse, MbapParser::parse_header, MbapParser::parse_body
//@ bounds: every stream of 0..=12 bytes at every buffer offset, every split point (measured 650-720 s); unwind 14
#[kani::proof]
#[kani::unwind(14)]
fn c05_parser_split_t() {
    parser_split::<12>(true);
}

//@ props: C05 C07 C20
//@ peer: yes
//@ timeout: 900
//@ fns: tcp::frame::MbapParser::parse, MbapParser::parse_header, MbapParser::parse_body, common::frame::Frame::set
//@ bounds: every stream of 0..=10 bytes at buffer offset 0 (residue elsewhere arbitrary), every split point k of the delivery, all decode levels; offset-independence of the accessors: c05_buffer_accessors; every offset: thorough tier; unwind 14
#[kani::proof]
#[kani::unwind(14)]
fn c05_parser_split_q() {
    parser_split::<10>(false);
}

//@ props: C05 C07
//@ peer: yes
//@ timeout: 1800
//@ fns: tcp::frame::MbapParser::parse, MbapParser::parse_body, common::frame::Frame::set (copy of the largest body)
//@ bounds: length field 254 (largest legal) and 255 (smallest illegal) with a full 260-byte symbolic buffer
#[kani::proof]
#[kani::unwind(262)]
fn c05_parser_max_frame() {
    let mut content: [u8; 260] = kani::any();
    let big: bool = kani::any();
    content[2] = 0;
    content[3] = 0;
    content[4] = 0;
    content[5] = if big { 255 } else { 254 };
    let mut buf = buffer_with(&content, 260, 0);
    let mut p = MbapParser::new();
    let r = p.parse(&mut buf, FrameDecodeLevel::Nothing);
    match r {
        Ok(Some(f)) => {
            assert!(!big, "[C05] a length above 254 is never interpreted");
            assert!(f.payload().len() == 253, "[C05] largest legal frame is delivered whole");
            let k: usize = kani::any();
            kani::assume(k < 253);
            assert!(f.payload()[k] == content[7 + k], "[C05] body bytes");
            assert!(begin_of(&buf) == 260);
        }
        Err(e) => assert!(big && matches!(e, RequestError::BadFrame(_)), "[C05] length 254 is legal"),
        Ok(None) => assert!(false, "[C05] complete frame available"),
    }
    kani::cover!(big, "255 rejected");
    kani::cover!(!big, "254 accepted");
}

const S: usize = 8;

// ATTEMPTED AND INTRACTABLE (unregistered): end-to-end FramedReader::next_frame with a solver-chosen chunk size at every
// read. Measured: 10-byte streams ran out of memory; 8-byte streams, alone on the machine, timed out at 40 min (24 GB).
// Chunking-independence end to end is therefore carried only by the COMPOSITION of the two inductive steps
// (parser step/resume and read_some step, each from an arbitrary state) - an argument, not a query.
//@ props: ZZ
//@ peer: yes
//@ tier: thorough
//@ timeout: 5400
//@ fns: common::frame::FramedReader::next_frame, FrameParser::parse, FrameParser::reset, tcp::frame::MbapParser::parse, common::buffer::ReadBuffer::read_some, common::phys::PhysLayer::read
//@ bounds: every byte stream of 0..=8 bytes (header + one body byte), EVERY partition into read chunks (each chunk size chosen by the solver), up to 2 calls of next_frame; all decode levels
//@ stubs: transport = VerifIo (hook H1)
//@ outside: longer streams (the parser/read steps from arbitrary states carry the argument beyond the bound)
/// end to end: whatever the chunking, the reader yields the reference frames in order, then reports
/// end-of-stream / the framing error
#[kani::proof]
#[kani::unwind(10)]
fn c05_reader_chunking_t() {
    let s: [u8; S] = kani::any();
    let len: usize = kani::any();
    kani::assume(len <= S);
    let mut io = VerifIo::new();
    let mut i = 0;
    while i < S {
        io.input[i] = s[i];
        i += 1;
    }
    io.in_len = len;
    let mut phys = PhysLayer::new_verif(io);
    let level = any_decode_level();
    let mut reader = FramedReader::tcp();
    let r1 = block_on(reader.next_frame(&mut phys, level));
    let w1 = ref_mbap(&s, len);
    match (&r1, w1) {
        (Ok(f), RefMbap::Frame(tx, unit, adu)) => {
            assert!(f.header.tx_id.map(|t| t.to_u16()) == Some(tx) && f.header.destination == FrameDestination::UnitId(UnitId::new(unit)), "[C05] same frame for every chunking");
            assert!(f.payload().len() == adu, "[C05] same frame boundary for every chunking");
            let k: usize = kani::any();
            kani::assume(k < adu && k < S - 7);
            assert!(f.payload()[k] == s[7 + k], "[C05] same frame bytes for every chunking");
        }
        (Err(e), RefMbap::Bad) => assert!(matches!(e, RequestError::BadFrame(_)), "[C05] malformed header ends the session for every chunking"),
        (Err(e), RefMbap::NeedMore) => assert!(matches!(e, RequestError::Io(std::io::ErrorKind::UnexpectedEof)), "[C05] an incomplete stream ends with end-of-stream"),
        _ => assert!(false, "[C05] reader result differs from the reference framing"),
    }
    kani::cover!(matches!(w1, RefMbap::Frame(_, _, a) if a == 1) && phys.verif().reads >= 3, "frame assembled from three or more chunks");
    kani::cover!(w1 == RefMbap::Bad, "bad header");
    kani::cover!(w1 == RefMbap::NeedMore && len > 7, "truncated body");
    std::mem::forget(phys);
    std::mem::forget(reader);
}
