//! Client kernels attached to rodbus/src/client/message.rs:
//!  * C03: `FrameWriter::format_request` for all eight request kinds vs the reference encoder
//!  * C04: `Request::handle_response` for all eight kinds vs the reference reply classifier
//!  * C10: exactly-one completion of the promise types
#![allow(unused)]
use super::*;
use crate::client::requests::read_bits::ReadBits;
use crate::client::requests::read_registers::ReadRegisters;
use crate::client::requests::write_multiple::{MultipleWriteRequest, WriteMultiple};
use crate::client::requests::write_single::SingleWrite;
use crate::common::frame::verif_frame::any_writer;
use crate::common::frame::{FrameDestination, FrameHeader, FrameWriter, TxId};
use crate::types::{AddressRange, BitIterator, Indexed, RegisterIterator, UnitId};
use crate::verif_support::*;
use std::sync::atomic::{AtomicBool, AtomicU16, AtomicU32, AtomicU8, Ordering::Relaxed};

macro_rules! must {
    ($e:expr, $msg:literal) => {
        match $e {
            Ok(x) => x,
            Err(_) => {
                assert!(false, $msg);
                return;
            }
        }
    };
}

// ---------------------------------------------------------------------------------------------
// completion sink: static atomics (an Arc<Mutex<..>> sink cost 18 GB in the probes)

static CALLS: AtomicU32 = AtomicU32::new(0);
static OK: AtomicBool = AtomicBool::new(false);
/// error class of the completion: see `err_class`
static ERR: AtomicU8 = AtomicU8::new(0);
static EXC: AtomicU8 = AtomicU8::new(0);
static ITEMS: AtomicU32 = AtomicU32::new(0);
/// per-item results of the read sinks: plain cells, written once after the loop (atomics inside the unrolled loop
/// and behind a boxed closure inflated the equation system to ~24 GB)
static mut R_ITEMS: u32 = 0;
static mut R_HIT: bool = false;
static mut R_INDEX: u16 = 0;
static mut R_VALUE: u16 = 0;
static mut R_PROBE: u16 = 0;
static SEQ_OK: AtomicBool = AtomicBool::new(true);
static PROBE: AtomicU16 = AtomicU16::new(0);
static PROBE_HIT: AtomicBool = AtomicBool::new(false);
static PROBE_INDEX: AtomicU16 = AtomicU16::new(0);
static PROBE_VALUE: AtomicU16 = AtomicU16::new(0);
static V_INDEX: AtomicU16 = AtomicU16::new(0);
static V_VALUE: AtomicU16 = AtomicU16::new(0);

fn err_class(e: RequestError) -> u8 {
    match e {
        RequestError::Io(_) => 1,
        RequestError::Exception(x) => {
            EXC.store(u8::from(x), Relaxed);
            2
        }
        RequestError::BadRequest(_) => 3,
        RequestError::BadFrame(_) => 4,
        RequestError::BadResponse(_) => 5,
        RequestError::Internal(_) => 6,
        RequestError::ResponseTimeout => 7,
        RequestError::NoConnection => 8,
        RequestError::Shutdown => 9,
    }
}

fn record_err(e: RequestError) {
    CALLS.fetch_add(1, Relaxed);
    OK.store(false, Relaxed);
    ERR.store(err_class(e), Relaxed);
}

fn bits_sink(r: Result<BitIterator, RequestError>) {
    match r {
        Ok(it) => {
            CALLS.fetch_add(1, Relaxed);
            OK.store(true, Relaxed);
            let probe = unsafe { R_PROBE };
            let mut k: u16 = 0;
            let mut hit = false;
            let mut pi = 0u16;
            let mut pv = 0u16;
            for item in it {
                if k == probe {
                    hit = true;
                    pi = item.index;
                    pv = item.value as u16;
                }
                k = k.wrapping_add(1);
            }
            unsafe {
                R_ITEMS = k as u32;
                R_HIT = hit;
                R_INDEX = pi;
                R_VALUE = pv;
            }
        }
        Err(e) => record_err(e),
    }
}

fn regs_sink(r: Result<RegisterIterator, RequestError>) {
    match r {
        Ok(it) => {
            CALLS.fetch_add(1, Relaxed);
            OK.store(true, Relaxed);
            let probe = unsafe { R_PROBE };
            let mut k: u16 = 0;
            let mut hit = false;
            let mut pi = 0u16;
            let mut pv = 0u16;
            for item in it {
                if k == probe {
                    hit = true;
                    pi = item.index;
                    pv = item.value;
                }
                k = k.wrapping_add(1);
            }
            unsafe {
                R_ITEMS = k as u32;
                R_HIT = hit;
                R_INDEX = pi;
                R_VALUE = pv;
            }
        }
        Err(e) => record_err(e),
    }
}

fn coil_sink(r: Result<Indexed<bool>, RequestError>) {
    match r {
        Ok(v) => {
            CALLS.fetch_add(1, Relaxed);
            OK.store(true, Relaxed);
            V_INDEX.store(v.index, Relaxed);
            V_VALUE.store(v.value as u16, Relaxed);
        }
        Err(e) => record_err(e),
    }
}

fn reg_sink(r: Result<Indexed<u16>, RequestError>) {
    match r {
        Ok(v) => {
            CALLS.fetch_add(1, Relaxed);
            OK.store(true, Relaxed);
            V_INDEX.store(v.index, Relaxed);
            V_VALUE.store(v.value, Relaxed);
        }
        Err(e) => record_err(e),
    }
}

fn range_sink(r: Result<AddressRange, RequestError>) {
    match r {
        Ok(v) => {
            CALLS.fetch_add(1, Relaxed);
            OK.store(true, Relaxed);
            V_INDEX.store(v.start, Relaxed);
            V_VALUE.store(v.count, Relaxed);
        }
        Err(e) => record_err(e),
    }
}

// ---------------------------------------------------------------------------------------------
// C04 reference: classification of a reply PDU for a request with function code `fc`

#[derive(PartialEq, Clone, Copy)]
enum RefReply {
    /// the reply is the genuine matching reply: body has exactly `body_len` bytes after the function code
    Data,
    /// well-formed exception reply with this raw code
    Exception(u8),
    /// anything else: an error that is not an exception
    Bad,
}

/// `echo`: for writes, the 4 bytes that must be echoed; for reads None and `body_len` = 1 + data bytes
fn ref_reply(fc: u8, reply: &[u8], body_len: usize, echo: Option<[u8; 4]>) -> RefReply {
    if reply.len() == 0 {
        return RefReply::Bad;
    }
    if reply[0] == fc {
        if reply.len() != 1 + body_len {
            return RefReply::Bad;
        }
        match echo {
            None => RefReply::Data, // byte-count field of read replies is a don't-care (exact length is what C04 states)
            Some(e) => {
                if reply[1] == e[0] && reply[2] == e[1] && reply[3] == e[2] && reply[4] == e[3] {
                    RefReply::Data
                } else {
                    RefReply::Bad
                }
            }
        }
    } else if reply[0] == (fc | 0x80) {
        if reply.len() == 2 {
            RefReply::Exception(reply[1])
        } else {
            RefReply::Bad
        }
    } else {
        RefReply::Bad
    }
}

/// common tail: what must hold after `handle_response` for every request kind.
/// On failure `handle_response` must NOT have completed the promise; the caller (run_one_request) fails it
/// exactly once; a later drop must not complete it again (C10).
fn check_outcome(req: &mut Request, res: Result<(), RequestError>, want: RefReply) {
    match res {
        Ok(()) => {
            assert!(want == RefReply::Data, "[C04] success only for the genuine matching reply (function code, exact length, echo)");
            assert!(CALLS.load(Relaxed) == 1 && OK.load(Relaxed), "[C10] success completes the request exactly once with a value");
        }
        Err(e) => {
            assert!(want != RefReply::Data, "[C04] the genuine matching reply completes the request successfully");
            assert!(CALLS.load(Relaxed) == 0, "[C10] handle_response does not complete a request it rejects (the caller fails it, once)");
            match want {
                RefReply::Exception(raw) => {
                    assert!(e == RequestError::Exception(ExceptionCode::from(raw)), "[C04] a well-formed exception reply yields exactly that exception code");
                }
                _ => {
                    assert!(!matches!(e, RequestError::Exception(_)), "[C04] every other reply fails with an error that is not an exception");
                }
            }
            // what ClientLoop::run_one_request does with the error
            req.details.fail(e);
            assert!(CALLS.load(Relaxed) == 1 && !OK.load(Relaxed), "[C10] the failure completes the request exactly once");
            assert!(ERR.load(Relaxed) == err_class(e), "[C10] the error delivered is the error that occurred");
        }
    }
}

const T1S: Duration = Duration::from_secs(1);









fn write_single_response(fc: u8) {
    let index: u16 = kani::any();
    let raw: u16 = kani::any();
    let reply: [u8; 7] = kani::any();
    let len: usize = kani::any();
    kani::assume(len <= 7);
    let payload = &reply[..len];
    let level = any_decode_level();
    let (details, echo) = if fc == 5 {
        let on: bool = kani::any();
        let v: u16 = if on { 0xFF00 } else { 0x0000 };
        (
            RequestDetails::WriteSingleCoil(SingleWrite::new(Indexed::new(index, on), Promise::new(|r| coil_sink(r)))),
            [(index >> 8) as u8, index as u8, (v >> 8) as u8, v as u8],
        )
    } else {
        (
            RequestDetails::WriteSingleRegister(SingleWrite::new(Indexed::new(index, raw), Promise::new(|r| reg_sink(r)))),
            [(index >> 8) as u8, index as u8, (raw >> 8) as u8, raw as u8],
        )
    };
    let mut req = Request::new(UnitId::new(1), T1S, details);
    let want = ref_reply(fc, payload, 4, Some(echo));
    let res = req.handle_response(payload, level.app);
    check_outcome(&mut req, res, want);
    if want == RefReply::Data {
        assert!(V_INDEX.load(Relaxed) == index, "[C04] the echoed address is returned");
        let v = be16(echo[2], echo[3]);
        assert!(V_VALUE.load(Relaxed) == (if fc == 5 { (v == 0xFF00) as u16 } else { v }), "[C04] the echoed value is returned");
    }
    drop(req);
    assert!(CALLS.load(Relaxed) == 1, "[C10] exactly one completion");
    kani::cover!(want == RefReply::Data, "echo accepted");
    kani::cover!(want == RefReply::Bad && len == 5 && reply[0] == fc, "echo mismatch rejected");
    kani::cover!(matches!(want, RefReply::Exception(_)), "exception reply");
}

//@ props: C04 C07 C10 C20
//@ peer: yes
//@ timeout: 900
//@ fns: client::message::Request::handle_response, Request::get_error_for, client::requests::write_single::SingleWrite::handle_response, SingleWrite::parse_all, <Indexed<bool> as SingleWriteOperation>::parse, <Indexed<u16> as SingleWriteOperation>::parse, client::message::Promise::success / failure / complete / drop
//@ bounds: fc 5 and 6, every request, every reply PDU of 0..=7 bytes, callback promise, all decode levels
#[kani::proof]
#[kani::unwind(9)]
fn c04_write_single_response() {
    if kani::any() {
        write_single_response(5);
    } else {
        write_single_response(6);
    }
}

fn write_multiple_response(fc: u8) {
    let start: u16 = kani::any();
    let n: usize = if kani::any() { 1 } else { 2 };
    let reply: [u8; 7] = kani::any();
    let len: usize = kani::any();
    kani::assume(len <= 7);
    let payload = &reply[..len];
    let level = any_decode_level();
    kani::assume((start as u32) + (n as u32) <= 65536);
    let details = if fc == 15 {
        let wm = must!(WriteMultiple::from(start, if n == 1 { vec![kani::any::<bool>()] } else { vec![kani::any::<bool>(), kani::any::<bool>()] }), "valid request");
        RequestDetails::WriteMultipleCoils(MultipleWriteRequest::new(wm, Promise::new(|r| range_sink(r))))
    } else {
        let wm = must!(WriteMultiple::from(start, if n == 1 { vec![kani::any::<u16>()] } else { vec![kani::any::<u16>(), kani::any::<u16>()] }), "valid request");
        RequestDetails::WriteMultipleRegisters(MultipleWriteRequest::new(wm, Promise::new(|r| range_sink(r))))
    };
    let mut req = Request::new(UnitId::new(1), T1S, details);
    let echo = [(start >> 8) as u8, start as u8, 0, n as u8];
    let want = ref_reply(fc, payload, 4, Some(echo));
    let res = req.handle_response(payload, level.app);
    check_outcome(&mut req, res, want);
    if want == RefReply::Data {
        assert!(V_INDEX.load(Relaxed) == start && V_VALUE.load(Relaxed) == n as u16, "[C04] the echoed range is returned");
    }
    drop(req);
    assert!(CALLS.load(Relaxed) == 1, "[C10] exactly one completion");
    kani::cover!(want == RefReply::Data, "echo accepted");
    kani::cover!(want == RefReply::Bad && len == 5 && reply[0] == fc, "echo mismatch rejected");
    kani::cover!(matches!(want, RefReply::Exception(_)), "exception reply");
}

//@ props: C04 C07 C10 C20
//@ peer: yes
//@ timeout: 900
//@ fns: client::message::Request::handle_response, client::requests::write_multiple::MultipleWriteRequest::handle_response, MultipleWriteRequest::parse_all, WriteMultiple::from, <AddressRange as Parse>::parse
//@ bounds: fc 15 and 16, 1 or 2 values at every start address, every reply PDU of 0..=7 bytes, callback promise
#[kani::proof]
#[kani::unwind(9)]
fn c04_write_multiple_response() {
    if kani::any() {
        write_multiple_response(15);
    } else {
        write_multiple_response(16);
    }
}

//@ props: C04 C10
//@ timeout: 900
//@ fns: client::requests::read_bits::ReadBits::channel, read_bits::Promise::success (Oneshot arm: BitIterator::collect), client::message::Promise::channel, tokio::sync::oneshot::Sender::send, Receiver::try_recv
//@ bounds: the future-style (oneshot) promise used by Channel::read_coils / write_single_register; 2 returned items (a symbolic-length Vec exhausted memory in the probes)
#[kani::proof]
#[kani::unwind(6)]
fn c04_oneshot_promises() {
    // read coils, 2 items
    let start: u16 = kani::any();
    kani::assume(start < 0xFFFF);
    let range = must!(must!(AddressRange::try_from(start, 2), "valid range").of_read_bits(), "limit");
    let (tx, mut rx) = tokio::sync::oneshot::channel::<Result<Vec<Indexed<bool>>, RequestError>>();
    let mut req = Request::new(UnitId::new(1), T1S, RequestDetails::ReadCoils(ReadBits::channel(range, tx)));
    let b: u8 = kani::any();
    let payload = [1u8, 1, b];
    let res = req.handle_response(&payload, AppDecodeLevel::Nothing);
    assert!(res.is_ok(), "[C04] genuine reply accepted");
    match rx.try_recv() {
        Ok(Ok(v)) => {
            assert!(v.len() == 2, "[C04] exactly count values");
            assert!(v[0].index == start && v[1].index == start + 1, "[C04] indexed upward from start");
            assert!(v[0].value == (b & 1 == 1) && v[1].value == (b & 2 == 2), "[C04] LSB-first bits");
            std::mem::forget(v);
        }
        _ => assert!(false, "[C10] the future-style request completes with the value"),
    }
    drop(req);
    std::mem::forget(rx);
    // write single register: failure path through the oneshot, then drop
    let (tx2, mut rx2) = tokio::sync::oneshot::channel::<Result<Indexed<u16>, RequestError>>();
    let mut req2 = Request::new(UnitId::new(1), T1S, RequestDetails::WriteSingleRegister(SingleWrite::new(Indexed::new(1, 2), Promise::channel(tx2))));
    let res2 = req2.handle_response(&[0x86, 0x02], AppDecodeLevel::Nothing);
    assert!(res2 == Err(RequestError::Exception(ExceptionCode::IllegalDataAddress)), "[C04] exception decoded");
    assert!(rx2.try_recv().is_err(), "[C10] not completed by handle_response on failure");
    req2.details.fail(RequestError::Exception(ExceptionCode::IllegalDataAddress));
    drop(req2);
    assert!(rx2.try_recv() == Ok(Err(RequestError::Exception(ExceptionCode::IllegalDataAddress))), "[C10] completed once with the error that occurred, not overwritten by the drop");
    std::mem::forget(rx2);
    // a request dropped without ever being completed reports Shutdown
    let (tx3, mut rx3) = tokio::sync::oneshot::channel::<Result<AddressRange, RequestError>>();
    let wm = must!(WriteMultiple::from(0, vec![1u16]), "valid");
    let req3 = Request::new(UnitId::new(1), T1S, RequestDetails::WriteMultipleRegisters(MultipleWriteRequest::new(wm, Promise::channel(tx3))));
    drop(req3);
    assert!(rx3.try_recv() == Ok(Err(RequestError::Shutdown)), "[C10] a request dropped unanswered completes with Shutdown");
    std::mem::forget(rx3);
    kani::cover!(b == 3, "both bits set");
}

//@ props: C10
//@ timeout: 900
//@ fns: client::message::Promise::success, Promise::failure, Promise::complete, <Promise as Drop>::drop, RequestDetails::fail, client::requests::read_bits::Promise::{success,failure,drop}, client::requests::read_registers::Promise::{failure,drop}
//@ bounds: every sequence of 0..=3 completion attempts over {success, failure(any error class)} followed by drop, for the five promise types with a boxed callback
//@ outside: interleavings with replies, deadlines, enable/disable, shutdown and task abort (tokio::select!, mpsc::recv, sleep_until cannot be compiled or executed by Kani 0.68)
/// exactly one completion: the first attempt wins, later attempts and the drop are no-ops; no attempt => Shutdown on drop
#[kani::proof]
#[kani::unwind(6)]
fn c10_promise_exactly_once() {
    let kind: u8 = kani::any();
    kani::assume(kind < 5);
    let n: u8 = kani::any();
    kani::assume(n <= 3);
    let first_ok: bool = kani::any();
    let e1: u8 = kani::any();
    kani::assume(e1 >= 7 && e1 <= 9);
    let mk_err = |c: u8| match c {
        7 => RequestError::ResponseTimeout,
        8 => RequestError::NoConnection,
        _ => RequestError::Shutdown,
    };
    let data = [0xAAu8, 0x55];
    let range = must!(AddressRange::try_from(3, 1), "range");
    // helper closures cannot be generic over the promise type: spell the five types out
    match kind {
        0 => {
            let mut p: Promise<Indexed<bool>> = Promise::new(|r| coil_sink(r));
            let mut i = 0;
            while i < n {
                if i == 0 && first_ok { p.success(Indexed::new(1, true)) } else { p.failure(mk_err(e1)) }
                i += 1;
            }
            drop(p);
        }
        1 => {
            let mut p: Promise<Indexed<u16>> = Promise::new(|r| reg_sink(r));
            let mut i = 0;
            while i < n {
                if i == 0 && first_ok { p.success(Indexed::new(1, 7)) } else { p.failure(mk_err(e1)) }
                i += 1;
            }
            drop(p);
        }
        2 => {
            let mut p: Promise<AddressRange> = Promise::new(|r| range_sink(r));
            let mut i = 0;
            while i < n {
                if i == 0 && first_ok { p.success(range) } else { p.failure(mk_err(e1)) }
                i += 1;
            }
            drop(p);
        }
        3 => {
            let mut p = crate::client::requests::read_bits::Promise::new(|r| bits_sink(r));
            let mut i = 0;
            while i < n {
                if i == 0 && first_ok {
                    let mut c = scursor::ReadCursor::new(&data[..1]);
                    p.success(must!(BitIterator::parse_all(range, &mut c), "bits"))
                } else {
                    p.failure(mk_err(e1))
                }
                i += 1;
            }
            drop(p);
        }
        _ => {
            let mut p = crate::client::requests::read_registers::Promise::new(|r| regs_sink(r));
            let mut i = 0;
            while i < n {
                if i == 0 && first_ok {
                    let mut c = scursor::ReadCursor::new(&data[..2]);
                    p.success(must!(RegisterIterator::parse_all(range, &mut c), "regs"))
                } else {
                    p.failure(mk_err(e1))
                }
                i += 1;
            }
            drop(p);
        }
    }
    assert!(CALLS.load(Relaxed) == 1, "[C10] every request completes exactly once");
    if n == 0 {
        assert!(!OK.load(Relaxed) && ERR.load(Relaxed) == 9, "[C10] a request that nobody completed reports Shutdown when dropped");
    } else if first_ok {
        assert!(OK.load(Relaxed), "[C10] the first completion wins (value)");
    } else {
        assert!(!OK.load(Relaxed) && ERR.load(Relaxed) == e1, "[C10] the first completion wins (error kind preserved)");
    }
    kani::cover!(n == 0, "dropped without completion");
    kani::cover!(n == 3 && first_ok, "success then two late failures");
    kani::cover!(n == 2 && !first_ok && kind == 3, "bits promise failed twice");
}

//@ props: C10
//@ fns: error::<impl From<tokio::sync::mpsc::error::SendError<T>> for RequestError>::from, <impl From<tokio::sync::oneshot::error::RecvError> for RequestError>::from, <impl From<SendError<T>> for Shutdown>::from
//@ bounds: exhaustive (unit-like inputs)
/// submitting to / awaiting a dead task reports Shutdown
#[kani::proof]
fn c10_dead_task_maps_to_shutdown() {
    let x: u8 = kani::any();
    let e: RequestError = tokio::sync::mpsc::error::SendError(x).into();
    assert!(e == RequestError::Shutdown, "[C10] send to a dead task => Shutdown");
    let s: Shutdown = tokio::sync::mpsc::error::SendError(x).into();
    assert!(s == Shutdown);
    let (tx, mut rx) = tokio::sync::oneshot::channel::<u8>();
    drop(tx);
    match rx.try_recv() {
        Err(tokio::sync::oneshot::error::TryRecvError::Closed) => {}
        _ => assert!(false, "closed oneshot reports Closed"),
    }
    std::mem::forget(rx);
    kani::cover!(x == 1, "reached");
}

// ---------------------------------------------------------------------------------------------
// C03: request encoding

fn hdr(rtu: bool, unit: u8, tx: u16) -> FrameHeader {
    if rtu {
        FrameHeader::new_rtu_header(FrameDestination::UnitId(UnitId::new(unit)))
    } else {
        FrameHeader::new_tcp_header(UnitId::new(unit), TxId::new(tx))
    }
}

const ENC_CAP: usize = 32;

struct Enc {
    len: usize,
    b: [u8; ENC_CAP],
}

impl Enc {
    fn new(fc: u8) -> Self {
        let mut e = Enc { len: 0, b: [0; ENC_CAP] };
        e.push(fc);
        e
    }
    fn push(&mut self, v: u8) {
        self.b[self.len] = v;
        self.len += 1;
    }
    fn push16(&mut self, v: u16) {
        self.push((v >> 8) as u8);
        self.push(v as u8);
    }
}

fn check_request_frame(out: &[u8], rtu: bool, unit: u8, tx: u16, pdu: &Enc) {
    if rtu {
        assert!(out.len() == 1 + pdu.len + 2, "[C03] RTU frame = address + PDU + CRC");
        assert!(out[0] == unit, "[C03] unit id");
        let mut crc = tab_crc_step(0xFFFF, unit);
        let mut i = 0;
        while i < pdu.len {
            assert!(out[1 + i] == pdu.b[i], "[C03] RTU request PDU bytes are the protocol encoding");
            crc = tab_crc_step(crc, pdu.b[i]);
            i += 1;
        }
        assert!(out[1 + pdu.len] == crc as u8 && out[2 + pdu.len] == (crc >> 8) as u8, "[C06] emitted RTU frame ends with the CRC, low byte first");
    } else {
        assert!(out.len() == 7 + pdu.len, "[C03] MBAP frame = 7-byte header + PDU");
        assert!(out[0] == (tx >> 8) as u8 && out[1] == tx as u8, "[C11] transaction id stamped big-endian at offset 0");
        assert!(out[2] == 0 && out[3] == 0, "[C03] protocol id 0");
        let l = (pdu.len + 1) as u16;
        assert!(out[4] == (l >> 8) as u8 && out[5] == l as u8, "[C03] length field = unit id + PDU");
        assert!(out[6] == unit, "[C03] unit id");
        let mut i = 0;
        while i < pdu.len {
            assert!(out[7 + i] == pdu.b[i], "[C03] MBAP request PDU bytes are the protocol encoding");
            i += 1;
        }
    }
}

fn encode_fixed(fc: u8, rtu: bool) {
    let unit: u8 = kani::any();
    let tx: u16 = kani::any();
    let a: u16 = kani::any();
    let b: u16 = kani::any();
    let level = any_decode_level();
    let mut w = any_writer(rtu);
    let mut pdu = Enc::new(fc);
    let details = match fc {
        1 | 2 => {
            let r = match AddressRange::try_from(a, b) {
                Ok(r) => r,
                Err(_) => return,
            };
            let r = match r.of_read_bits() {
                Ok(r) => r,
                Err(_) => {
                    assert!(b > 2000, "[C03] only reads of more than 2000 bits are refused");
                    return;
                }
            };
            assert!(b <= 2000, "[C03] a read of more than 2000 bits is rejected before anything is queued");
            pdu.push16(a);
            pdu.push16(b);
            let (tx1, rx1) = tokio::sync::oneshot::channel();
            std::mem::forget(rx1);
            if fc == 1 { RequestDetails::ReadCoils(ReadBits::channel(r, tx1)) } else { RequestDetails::ReadDiscreteInputs(ReadBits::channel(r, tx1)) }
        }
        3 | 4 => {
            let r = match AddressRange::try_from(a, b) {
                Ok(r) => r,
                Err(_) => return,
            };
            let r = match r.of_read_registers() {
                Ok(r) => r,
                Err(_) => {
                    assert!(b > 125, "[C03] only reads of more than 125 registers are refused");
                    return;
                }
            };
            assert!(b <= 125, "[C03] a read of more than 125 registers is rejected before anything is queued");
            pdu.push16(a);
            pdu.push16(b);
            let (tx1, rx1) = tokio::sync::oneshot::channel();
            std::mem::forget(rx1);
            if fc == 3 { RequestDetails::ReadHoldingRegisters(ReadRegisters::channel(r, tx1)) } else { RequestDetails::ReadInputRegisters(ReadRegisters::channel(r, tx1)) }
        }
        5 => {
            let on = b & 1 == 1;
            pdu.push16(a);
            pdu.push16(if on { 0xFF00 } else { 0x0000 });
            let (tx1, rx1) = tokio::sync::oneshot::channel();
            std::mem::forget(rx1);
            RequestDetails::WriteSingleCoil(SingleWrite::new(Indexed::new(a, on), Promise::channel(tx1)))
        }
        _ => {
            pdu.push16(a);
            pdu.push16(b);
            let (tx1, rx1) = tokio::sync::oneshot::channel();
            std::mem::forget(rx1);
            RequestDetails::WriteSingleRegister(SingleWrite::new(Indexed::new(a, b), Promise::channel(tx1)))
        }
    };
    assert!(details.function().get_value() == fc, "[C03] function code of the request kind");
    let out = must!(w.format_request(hdr(rtu, unit, tx), details.function(), &details, level), "[C03] a valid request is encoded");
    check_request_frame(out, rtu, unit, tx, &pdu);
    kani::cover!(true, "frame emitted");
    std::mem::forget(details);
}

//@ props: C03 C11 C20
//@ timeout: 900
//@ fns: common::frame::FrameWriter::format_request, FrameWriter::format_generic, tcp::frame::format_mbap, client::message::<RequestDetails as Serialize>::serialize, RequestDetails::function, client::requests::read_bits::ReadBits::serialize, read_registers::ReadRegisters::serialize, write_single::SingleWrite::serialize, <Indexed<bool> as SingleWriteOperation>::serialize, <Indexed<u16> as SingleWriteOperation>::serialize, types::AddressRange::try_from, of_read_bits, of_read_registers
//@ bounds: the six fixed-length request kinds, every (start,count)/(index,value) in u16 x u16, every unit and transaction id, MBAP, all decode levels, arbitrary writer residue
//@ outside: "nothing is transmitted on rejection" at task level (ClientLoop::execute_request is async); decided here at the level where bytes are produced: Err is returned INSTEAD of a frame
#[kani::proof]
#[kani::unwind(8)]
fn c03_encode_fixed_mbap() {
    let k: u8 = kani::any();
    match k {
        0 => encode_fixed(1, false),
        1 => encode_fixed(2, false),
        2 => encode_fixed(3, false),
        3 => encode_fixed(4, false),
        4 => encode_fixed(5, false),
        _ => encode_fixed(6, false),
    }
}

//@ props: C03 C06 C20
//@ timeout: 900
//@ fns: common::frame::FrameWriter::format_request, serial::frame::format_rtu_pdu, crc::Crc<u16>::checksum
//@ bounds: read coils, read holding registers, write single coil/register over RTU; every field value
#[kani::proof]
#[kani::unwind(10)]
fn c03_encode_fixed_rtu() {
    let k: u8 = kani::any();
    match k {
        0 => encode_fixed(1, true),
        1 => encode_fixed(3, true),
        2 => encode_fixed(5, true),
        _ => encode_fixed(6, true),
    }
}

fn encode_coils<const N: usize>(rtu: bool) {
    let unit: u8 = kani::any();
    let tx: u16 = kani::any();
    let start: u16 = kani::any();
    let level = any_decode_level();
    let vals: [bool; N] = kani::any();
    let wm = match WriteMultiple::from(start, vals.to_vec()) {
        Ok(x) => x,
        Err(_) => {
            assert!((start as u32) + (N as u32) > 65536, "[C03] only address-overflowing ranges are refused at construction");
            return;
        }
    };
    assert!((start as u32) + (N as u32) <= 65536, "[C03] an address-overflowing write is rejected at construction");
    let mut pdu = Enc::new(15);
    pdu.push16(start);
    pdu.push16(N as u16);
    let nbytes = (N + 7) / 8;
    pdu.push(nbytes as u8);
    let mut byte = 0;
    while byte < nbytes {
        let mut acc = 0u8;
        let mut bit = 0;
        while bit < 8 {
            let k = byte * 8 + bit;
            if k < N && vals[k] {
                acc |= 1 << bit;
            }
            bit += 1;
        }
        pdu.push(acc);
        byte += 1;
    }
    let (tx1, rx1) = tokio::sync::oneshot::channel();
    std::mem::forget(rx1);
    let details = RequestDetails::WriteMultipleCoils(MultipleWriteRequest::new(wm, Promise::channel(tx1)));
    let mut w = any_writer(rtu);
    let out = must!(w.format_request(hdr(rtu, unit, tx), details.function(), &details, level), "[C03] a valid request is encoded");
    check_request_frame(out, rtu, unit, tx, &pdu);
    kani::cover!(true, "frame emitted");
    std::mem::forget(details);
}

//@ props: C03 C20
//@ timeout: 1200
//@ fns: common::frame::FrameWriter::format_request, common::serialize::<WriteMultiple<bool> as Serialize>::serialize, <&[bool] as Serialize>::serialize, calc_bytes_for_bits, client::requests::write_multiple::WriteMultiple::from, MultipleWriteRequest::serialize
//@ bounds: write multiple coils with 9 symbolic values (crosses a byte boundary), every start address, MBAP; unwind 12
//@ outside: other vector lengths between these points (limits: c03_write_limits)
#[kani::proof]
#[kani::unwind(12)]
fn c03_encode_write_coils_q() {
    encode_coils::<9>(false);
}

//@ props: C03 C20
//@ tier: thorough
//@ timeout: 3000
//@ fns: common::frame::FrameWriter::format_request, common::serialize::<&[bool] as Serialize>::serialize
//@ bounds: write multiple coils with 17 symbolic values, MBAP; unwind 20
#[kani::proof]
#[kani::unwind(20)]
fn c03_encode_write_coils_t() {
    encode_coils::<17>(false);
}

//@ props: C03 C06 C20
//@ tier: thorough
//@ timeout: 3000
//@ fns: common::frame::FrameWriter::format_request, serial::frame::format_rtu_pdu, common::serialize::<&[bool] as Serialize>::serialize
//@ bounds: write multiple coils with 8 symbolic values over RTU; unwind 20
#[kani::proof]
#[kani::unwind(20)]
fn c03_encode_write_coils_rtu_t() {
    encode_coils::<8>(true);
}

fn encode_regs<const N: usize>(rtu: bool) {
    let unit: u8 = kani::any();
    let tx: u16 = kani::any();
    let start: u16 = kani::any();
    let level = any_decode_level();
    let vals: [u16; N] = kani::any();
    let wm = match WriteMultiple::from(start, vals.to_vec()) {
        Ok(x) => x,
        Err(_) => {
            assert!((start as u32) + (N as u32) > 65536, "[C03] only address-overflowing ranges are refused at construction");
            return;
        }
    };
    let mut pdu = Enc::new(16);
    pdu.push16(start);
    pdu.push16(N as u16);
    pdu.push((2 * N) as u8);
    let mut k = 0;
    while k < N {
        pdu.push16(vals[k]);
        k += 1;
    }
    let (tx1, rx1) = tokio::sync::oneshot::channel();
    std::mem::forget(rx1);
    let details = RequestDetails::WriteMultipleRegisters(MultipleWriteRequest::new(wm, Promise::channel(tx1)));
    let mut w = any_writer(rtu);
    let out = must!(w.format_request(hdr(rtu, unit, tx), details.function(), &details, level), "[C03] a valid request is encoded");
    check_request_frame(out, rtu, unit, tx, &pdu);
    kani::cover!(true, "frame emitted");
    std::mem::forget(details);
}

//@ props: C03 C06 C20
//@ timeout: 1200
//@ fns: common::frame::FrameWriter::format_request, common::serialize::<WriteMultiple<u16> as Serialize>::serialize, <&[u16] as Serialize>::serialize, calc_bytes_for_registers
//@ bounds: write multiple registers with 1 and 3 symbolic values over MBAP, 2 over RTU; every start address; unwind 12
#[kani::proof]
#[kani::unwind(14)]
fn c03_encode_write_regs_q() {
    let k: u8 = kani::any();
    match k {
        0 => encode_regs::<1>(false),
        1 => encode_regs::<3>(false),
        _ => encode_regs::<2>(true),
    }
}

// ---------------------------------------------------------------------------------------------
// C03: protocol limits of the write-multiple requests and the maximum frame size.
// Vector CONTENTS are concrete (all false / zero), the LENGTH is what is being decided: loops are data-independent.

fn coils_limit<const N: usize>(rtu: bool) {
    let wm = must!(WriteMultiple::from(0, vec![false; N]), "range valid");
    let (tx1, rx1) = tokio::sync::oneshot::channel();
    std::mem::forget(rx1);
    let details = RequestDetails::WriteMultipleCoils(MultipleWriteRequest::new(wm, Promise::channel(tx1)));
    let mut w = if rtu { FrameWriter::rtu() } else { FrameWriter::tcp() };
    match w.format_request(hdr(rtu, 1, 7), details.function(), &details, DecodeLevel::nothing()) {
        Ok(out) => {
            assert!(N <= 1968, "[C03] more than 1968 coils in one write is always rejected");
            assert!(out.len() <= if rtu { 256 } else { 260 }, "[C03] no frame longer than 260 bytes (TCP) / 256 bytes (serial)");
            assert!(out.len() == (if rtu { 1 + 2 } else { 7 }) + 6 + (N + 7) / 8, "[C03] frame length");
        }
        Err(_) => assert!(N > 1968, "[C03] up to 1968 coils are accepted"),
    }
    std::mem::forget(details);
}

fn regs_limit<const N: usize>(rtu: bool) {
    let wm = must!(WriteMultiple::from(0, vec![0u16; N]), "range valid");
    let (tx1, rx1) = tokio::sync::oneshot::channel();
    std::mem::forget(rx1);
    let details = RequestDetails::WriteMultipleRegisters(MultipleWriteRequest::new(wm, Promise::channel(tx1)));
    let mut w = if rtu { FrameWriter::rtu() } else { FrameWriter::tcp() };
    match w.format_request(hdr(rtu, 1, 7), details.function(), &details, DecodeLevel::nothing()) {
        Ok(out) => {
            assert!(N <= 123, "[C03] more than 123 registers in one write is always rejected");
            assert!(out.len() <= if rtu { 256 } else { 260 }, "[C03] no frame longer than 260 bytes (TCP) / 256 bytes (serial)");
        }
        Err(_) => assert!(N > 123, "[C03] up to 123 registers are accepted"),
    }
    std::mem::forget(details);
}

//@ props: C03
//@ timeout: 900
//@ fns: common::frame::FrameWriter::format_request, common::serialize::<WriteMultiple<bool> as Serialize>::serialize, <&[bool] as Serialize>::serialize, tcp::frame::format_mbap, scursor::WriteCursor (buffer overflow => error instead of a frame)
//@ bounds: MBAP, 1969 coils (first count above the protocol limit), concrete-valued vector; unwind 260
//@ outside: counts other than the boundary points of this family of harnesses
#[kani::proof]
#[kani::unwind(260)]
fn c03_limit_coils_1969_mbap() {
    coils_limit::<1969>(false);
    kani::cover!(true, "reached");
}

// ATTEMPTED, NEVER COMPLETED (unregistered): accepting the largest legal write (1968 coils) means unrolling 246 x 8
// iterations of `chunks(8)`/`enumerate` over heap data: > 50 min twice, no result. The REJECTION of 1969 coils is
// decided (c03_limit_coils_1969_mbap, instant since fix F3a); the register limit 123/124 is decided on both framings.
//@ props: ZZ
//@ tier: thorough
//@ timeout: 7200
//@ fns: common::frame::FrameWriter::format_request, common::serialize::<WriteMultiple<bool> as Serialize>::serialize
//@ bounds: MBAP, 1968 coils (largest legal write); unwind 260
#[kani::proof]
#[kani::unwind(260)]
fn c03_limit_coils_1968_mbap() {
    coils_limit::<1968>(false);
    kani::cover!(true, "reached");
}

//@ props: C03 C06
//@ timeout: 900
//@ fns: common::frame::FrameWriter::format_request, common::serialize::<WriteMultiple<u16> as Serialize>::serialize, serial::frame::format_rtu_pdu
//@ bounds: RTU, 124 registers (first count above the protocol limit; a 257-byte frame if emitted); unwind 270
#[kani::proof]
#[kani::unwind(270)]
fn c03_limit_regs_124_rtu() {
    regs_limit::<124>(true);
    kani::cover!(true, "reached");
}

//@ props: C03
//@ timeout: 900
//@ fns: common::frame::FrameWriter::format_request, common::serialize::<WriteMultiple<u16> as Serialize>::serialize
//@ bounds: MBAP, 123 and 124 registers; unwind 270
#[kani::proof]
#[kani::unwind(270)]
fn c03_limit_regs_mbap() {
    if kani::any() {
        regs_limit::<123>(false);
    } else {
        regs_limit::<124>(false);
    }
    kani::cover!(true, "reached");
}


// ---------------------------------------------------------------------------------------------
// C04 read replies, decided on the layer that carries the property.
//
// Measured: wrapping the read request in `Request`/`RequestDetails` and dropping it (`drop(req)`) makes the query
// intractable (the drop glue of all eight variants reaches the tokio oneshot sender; 2 bits / 3 bytes already ran
// out of 30 GB), while `Request::handle_response`'s function-code / exception dispatch is independent of the request
// kind and is decided for every reply by c04_write_single_response / c04_write_multiple_response. So the read
// harnesses call `ReadBits::handle_response` / `ReadRegisters::handle_response` directly with the reply BODY (what
// `Request::handle_response` passes on after it matched the function code) and `mem::forget` the request.
// Exactly-once across drop is decided on the bare promise types by c10_promise_exactly_once.
//
// WHY THESE ARE STILL EXPENSIVE (diagnosed on a throw-away copy of the source, never used as evidence): in
// `read_*::Promise::success`, `self.inner.take()` moves the `PromiseInner` enum by value, CBMC's symex loses its
// discriminant and explores the `Oneshot` arm as well, where `iter.collect()` / `collect_vec()` builds a Vec of
// symbolic length. With that one arm removed the 3-register query drops from 23.6 GB / 568 s to 7.3 GB / 6.7 s.
// The arm is repository code and real client behaviour (decided separately by c04_oneshot_promises), so it is NOT
// stubbed; instead the bounds are small and the register query runs in the thorough tier only.

fn read_bits_body<const MAXQ: u16, const L: usize>() {
    let start: u16 = kani::any();
    let count: u16 = kani::any();
    kani::assume(count >= 1 && count <= MAXQ && (start as u32) + (count as u32) <= 65536);
    let range = must!(must!(AddressRange::try_from(start, count), "valid range").of_read_bits(), "within read limit");
    let probe: u16 = kani::any();
    unsafe { R_PROBE = probe };
    let body: [u8; L] = kani::any();
    let len: usize = kani::any();
    kani::assume(len <= L);
    let level = any_decode_level();
    let mut rb = ReadBits::new(range, crate::client::requests::read_bits::Promise::new(|r| bits_sink(r)));
    let nbytes = ((count + 7) / 8) as usize;
    let res = rb.handle_response(scursor::ReadCursor::new(&body[..len]), FunctionCode::ReadCoils, level.app);
    // body = byte-count field (don't care) + exactly the bytes implied by the requested count
    let genuine = len == 1 + nbytes;
    match res {
        Ok(()) => {
            assert!(genuine, "[C04] success only for a reply of exactly the length implied by the request");
            assert!(CALLS.load(Relaxed) == 1 && OK.load(Relaxed), "[C10] success completes the request exactly once with a value");
            assert!((unsafe { R_ITEMS }) == count as u32, "[C04] exactly `count` values are returned");
            if probe < count {
                // address of an arbitrary item. Its VALUE (bit `pos % 8` of byte `pos / 8`, LSB first) is decided
                // for every (range, pos) by the one-step lemma c07_value_iterators_step on the same iterator:
                // equating two symbolic-shift extractions over 9 unrolled items exhausted 30 GB here.
                assert!((unsafe { R_HIT }) && (unsafe { R_INDEX }) == start + probe, "[C04] values are indexed upward from the requested start address");
            }
        }
        Err(e) => {
            assert!(!genuine, "[C04] the genuine matching reply completes the request successfully");
            assert!(!matches!(e, RequestError::Exception(_)), "[C04] a wrong-length reply is an error that is not an exception");
            assert!(CALLS.load(Relaxed) == 0, "[C10] a rejected reply does not complete the request (the caller fails it, once)");
        }
    }
    kani::cover!(genuine && count == MAXQ, "largest reply in bound accepted");
    kani::cover!(!genuine && len > 1 + nbytes, "too long");
    kani::cover!(!genuine && len < 1 + nbytes, "too short");
    std::mem::forget(rb);
}

//@ props: C04
//@ heavy: yes
//@ peer: yes
//@ timeout: 1200
//@ fns: client::requests::read_bits::ReadBits::handle_response, ReadBits::parse_bits_response, types::BitIterator::parse_all, <BitIterator as Iterator>::next, read_bits::Promise::success (callback arm)
//@ bounds: requested count 1..=2 at every start address, every reply body of 0..=3 bytes (does NOT cross a byte boundary): length rule, item count, item addresses, exactly-once; item VALUES for every position by the step lemma c07_value_iterators_step; all decode levels; unwind 5
//@ outside: counts above 2 - measured: 9 bits / 4 bytes ran out of 30 GB in the solver three times (with and without the value comparison); the function-code / exception dispatch in front of this layer is decided by c04_write_*_response for every reply
#[kani::proof]
#[kani::unwind(5)]
fn c04_read_bits_body_q() {
    read_bits_body::<2, 3>();
}

fn read_regs_body<const MAXQ: u16, const L: usize>() {
    let start: u16 = kani::any();
    let count: u16 = kani::any();
    kani::assume(count >= 1 && count <= MAXQ && (start as u32) + (count as u32) <= 65536);
    let range = must!(must!(AddressRange::try_from(start, count), "valid range").of_read_registers(), "within read limit");
    let probe: u16 = kani::any();
    unsafe { R_PROBE = probe };
    let body: [u8; L] = kani::any();
    let len: usize = kani::any();
    kani::assume(len <= L);
    let level = any_decode_level();
    let mut rr = ReadRegisters::new(range, crate::client::requests::read_registers::Promise::new(|r| regs_sink(r)));
    let res = rr.handle_response(scursor::ReadCursor::new(&body[..len]), FunctionCode::ReadHoldingRegisters, level.app);
    let genuine = len == 1 + 2 * count as usize;
    match res {
        Ok(()) => {
            assert!(genuine, "[C04] success only for a reply of exactly the length implied by the request");
            assert!(CALLS.load(Relaxed) == 1 && OK.load(Relaxed), "[C10] success completes the request exactly once with a value");
            assert!((unsafe { R_ITEMS }) == count as u32, "[C04] exactly `count` values are returned");
            if probe < count {
                assert!((unsafe { R_HIT }) && (unsafe { R_INDEX }) == start + probe, "[C04] values are indexed upward from the requested start address");
                let v = be16(body[1 + 2 * probe as usize], body[2 + 2 * probe as usize]);
                assert!((unsafe { R_VALUE }) == v, "[C04] returned registers are exactly those encoded in the reply (big endian)");
            }
        }
        Err(e) => {
            assert!(!genuine, "[C04] the genuine matching reply completes the request successfully");
            assert!(!matches!(e, RequestError::Exception(_)), "[C04] a wrong-length reply is an error that is not an exception");
            assert!(CALLS.load(Relaxed) == 0, "[C10] a rejected reply does not complete the request");
        }
    }
    kani::cover!(genuine && count == MAXQ, "largest reply in bound accepted");
    kani::cover!(!genuine && len > 0, "wrong length");
    std::mem::forget(rr);
}

//@ props: C04
//@ heavy: yes
//@ tier: thorough
//@ peer: yes
//@ timeout: 2400
//@ fns: client::requests::read_registers::ReadRegisters::handle_response, types::RegisterIterator::parse_all, <RegisterIterator as Iterator>::next, read_registers::Promise::success (callback arm; needs ~24 GB resident, 9 min)
//@ bounds: requested count 1..=3 at every start address, every reply body of 0..=8 bytes, symbolic probe, all decode levels; unwind 6
#[kani::proof]
#[kani::unwind(6)]
fn c04_read_regs_body_t() {
    read_regs_body::<3, 8>();
}


