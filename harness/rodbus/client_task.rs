//! Harnesses attached to rodbus/src/client/task.rs (TimeoutCounter, SessionError mapping, change_setting)
#![allow(unused)]
use super::*;
use crate::verif_support::*;

const THOROUGH: bool = false;

/// reference model of the consecutive-timeout counter
struct RefCounter {
    max: Option<usize>,
    run: usize,
}

fn counter_script<const L: usize>(kmax: usize) {
    let n: usize = kani::any();
    let enabled: bool = kani::any();
    kani::assume(n >= 1 && n <= kmax);
    let max = if enabled { NonZeroUsize::new(n) } else { None };
    let mut c = TimeoutCounter::new(max);
    let mut r = RefCounter { max: if enabled { Some(n) } else { None }, run: 0 };
    let mut dropped = false;
    let mut i = 0;
    while i < L {
        // outcome of the i-th request: timeout or anything else (success / exception / bad reply)
        let timeout: bool = kani::any();
        if timeout {
            let res = c.increment();
            r.run += 1;
            match r.max {
                None => assert!(res.is_ok(), "[C12] without a limit timeouts never drop the connection"),
                Some(m) => {
                    if r.run >= m {
                        assert!(res == Err(SessionError::MaxTimeouts(m)), "[C12] connection dropped at exactly the N-th consecutive timeout");
                        dropped = true;
                        // the session ends here; a new session starts with reset() (ClientLoop::run)
                        c.reset();
                        r.run = 0;
                    } else {
                        assert!(res.is_ok(), "[C12] fewer than N consecutive timeouts keep the connection");
                    }
                }
            }
        } else {
            c.reset();
            r.run = 0;
        }
        i += 1;
    }
    kani::cover!(dropped, "limit reached in the script");
    kani::cover!(enabled && !dropped, "limit configured but never reached");
    kani::cover!(!enabled, "no limit configured");
}

//@ props: C12
//@ fns: client::task::TimeoutCounter::new, TimeoutCounter::reset, TimeoutCounter::increment
//@ bounds: N in 1..=4 or none, every outcome script of length 6 over {timeout, other}
//@ outside: deadline arithmetic and which request outcomes feed the counter (run_one_request after select!: async + timers, not executable by Kani)
#[kani::proof]
#[kani::unwind(8)]
fn c12_counter_scripts_q() {
    counter_script::<6>(4);
}

//@ props: C12
//@ tier: thorough
//@ fns: client::task::TimeoutCounter::new, TimeoutCounter::reset, TimeoutCounter::increment
//@ bounds: N in 1..=8 or none, every outcome script of length 12
#[kani::proof]
#[kani::unwind(14)]
fn c12_counter_scripts_t() {
    counter_script::<12>(8);
}

//@ props: C12
//@ fns: client::task::TimeoutCounter::increment, TimeoutCounter::reset
//@ bounds: none - one step from an ARBITRARY counter state (current, max in full usize range)
/// inductive step: from any state with current < max, increment errs iff current + 1 >= max; saturation never panics
#[kani::proof]
fn c12_counter_step_any_state() {
    let current: usize = kani::any();
    let max: usize = kani::any();
    kani::assume(max >= 1);
    let mut c = TimeoutCounter { state: TimeoutCounterState::Enabled { current, max } };
    let res = c.increment();
    let expect_err = current.saturating_add(1) >= max;
    assert!(res.is_err() == expect_err, "[C12] increment errs exactly when the run reaches the limit");
    if let Err(e) = res {
        assert!(e == SessionError::MaxTimeouts(max), "[C12] error carries the configured limit");
    }
    match c.state {
        TimeoutCounterState::Enabled { current: c2, max: m2 } => {
            assert!(m2 == max);
            assert!(c2 == current.saturating_add(1));
        }
        TimeoutCounterState::Disabled => assert!(false, "state kind never changes"),
    }
    c.reset();
    match c.state {
        TimeoutCounterState::Enabled { current: c2, max: m2 } => assert!(c2 == 0 && m2 == max, "[C12] reset restarts the count"),
        TimeoutCounterState::Disabled => assert!(false),
    }
    let mut d = TimeoutCounter { state: TimeoutCounterState::Disabled };
    assert!(d.increment().is_ok(), "[C12] disabled counter never errs");
    kani::cover!(expect_err, "limit hit");
    kani::cover!(!expect_err, "limit not hit");
    kani::cover!(current == usize::MAX, "saturation point");
}

//@ props: C12 C10
//@ fns: client::task::SessionError::from_request_err
//@ bounds: all RequestError variants with symbolic payloads
/// only I/O and framing errors end the session; a timeout / exception / bad reply leaves the connection usable
#[kani::proof]
fn c12_session_error_mapping() {
    let k: u8 = kani::any();
    let ex: u8 = kani::any();
    let err = match k {
        0 => RequestError::Io(std::io::ErrorKind::BrokenPipe),
        1 => RequestError::Exception(crate::exception::ExceptionCode::from(ex)),
        2 => RequestError::BadFrame(FrameParseError::MbapLengthZero),
        3 => RequestError::BadResponse(AduParseError::InsufficientBytes),
        4 => RequestError::ResponseTimeout,
        5 => RequestError::NoConnection,
        6 => RequestError::Shutdown,
        _ => RequestError::BadRequest(InvalidRequest::CountTooBigForU16(0)),
    };
    let s = SessionError::from_request_err(err);
    match k {
        0 => assert!(s == Some(SessionError::IoError(std::io::ErrorKind::BrokenPipe))),
        2 => assert!(s == Some(SessionError::BadFrame)),
        _ => assert!(s.is_none(), "[C12] timeouts, exceptions and bad replies leave the connection usable"),
    }
    kani::cover!(k == 4, "timeout");
    kani::cover!(k == 0, "io");
}

//@ props: C20 C13
//@ timeout: 900
//@ fns: client::task::ClientLoop::change_setting, ClientLoop::new, ClientLoop::is_enabled
//@ bounds: every decode level (36 x 36), every enabled state, all three settings
//@ outside: that a level change never reorders an outstanding transaction (queue ordering inside the tokio task)
/// a run-time setting changes exactly the field it names: the decode level never touches the enabled flag, the
/// transaction id or the time-out counter; enable/disable never touch the level
#[kani::proof]
#[kani::unwind(6)]
fn c20_client_change_setting() {
    let before = any_decode_level();
    let after = any_decode_level();
    let (tx, rx) = tokio::sync::mpsc::channel::<crate::client::message::Command>(1);
    let mut c = ClientLoop::new(rx.into(), FrameWriter::tcp(), FramedReader::tcp(), before, None);
    assert!(!c.is_enabled(), "[C13] a channel starts disabled");
    let en: bool = kani::any();
    c.enabled = en;
    let txid: u16 = kani::any();
    c.tx_id = TxId::new(txid);
    let which: u8 = kani::any();
    match which {
        0 => {
            c.change_setting(Setting::DecodeLevel(after));
            assert!(c.decode == after, "[C20] the new level takes effect");
            assert!(c.enabled == en, "[C20] changing the level does not enable/disable the channel");
        }
        1 => {
            c.change_setting(Setting::Enable);
            assert!(c.enabled && c.decode == before, "[C13] enable sets the flag only");
        }
        _ => {
            c.change_setting(Setting::Disable);
            assert!(!c.enabled && c.decode == before, "[C13] disable clears the flag only");
        }
    }
    assert!(c.tx_id.to_u16() == txid, "[C20] the transaction id sequence is not disturbed");
    assert!(matches!(c.timeout_counter.state, TimeoutCounterState::Disabled), "[C20] the time-out counter is not disturbed");
    kani::cover!(which == 0 && before != after, "level changed");
    std::mem::forget(c);
    std::mem::forget(tx);
}
