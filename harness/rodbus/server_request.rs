//! Server kernels attached to rodbus/src/server/request.rs:
//! `Request::parse` ∘ `Request::get_reply` with the real `FrameWriter`, against the reference server.
#![allow(unused)]
use super::*;
use crate::common::frame::verif_frame::any_writer;
use crate::common::frame::{FrameDestination, TxId};
use crate::verif_support::*;

const PDU_CAP: usize = 40;

/// `unwrap()` without `Result::unwrap`'s panic path (its Debug formatting of the error is what made symex
/// of every harness with a feasible `Err` 20x slower)
macro_rules! must {
    ($e:expr, $msg:literal) => {
        match $e {
            Ok(x) => x,
            Err(_) => {
                assert!(false, $msg);
                return;
            }
        }
    };
}

struct Pdu {
    len: usize,
    b: [u8; PDU_CAP],
}

impl Pdu {
    fn new() -> Self {
        Pdu { len: 0, b: [0; PDU_CAP] }
    }
    fn push(&mut self, v: u8) {
        self.b[self.len] = v;
        self.len += 1;
    }
    fn exception(fc: u8, ex: ExceptionCode) -> Self {
        let mut p = Pdu::new();
        p.push(fc | 0x80);
        p.push(u8::from(ex));
        p
    }
}

fn header(rtu: bool, unit: u8, tx: u16) -> FrameHeader {
    if rtu {
        FrameHeader::new_rtu_header(FrameDestination::UnitId(UnitId::new(unit)))
    } else {
        FrameHeader::new_tcp_header(UnitId::new(unit), TxId::new(tx))
    }
}

/// Continue with a request whose discriminant is a CONSTANT. `Request::parse` returns a value merged over its
/// Ok/Err paths, so for CBMC's symex the discriminant is symbolic and `get_reply` would explore all eight arms
/// (measured: 47 s instead of 2.8 s). Re-wrapping inside the single arm the concrete function code allows, and
/// running the rest of the harness INSIDE that arm (no join point in between), keeps it constant.
/// Any other kind is a violation: the request was decoded as something else than its function code names.
fn with_pinned<'a>(fc: u8, r: Request<'a>, k: impl FnOnce(Request<'a>)) {
    match fc {
        1 => match r {
            Request::ReadCoils(x) => k(Request::ReadCoils(x)),
            _ => assert!(false, "[C01] request decoded as the kind its function code names"),
        },
        2 => match r {
            Request::ReadDiscreteInputs(x) => k(Request::ReadDiscreteInputs(x)),
            _ => assert!(false, "[C01] request decoded as the kind its function code names"),
        },
        3 => match r {
            Request::ReadHoldingRegisters(x) => k(Request::ReadHoldingRegisters(x)),
            _ => assert!(false, "[C01] request decoded as the kind its function code names"),
        },
        4 => match r {
            Request::ReadInputRegisters(x) => k(Request::ReadInputRegisters(x)),
            _ => assert!(false, "[C01] request decoded as the kind its function code names"),
        },
        5 => match r {
            Request::WriteSingleCoil(x) => k(Request::WriteSingleCoil(x)),
            _ => assert!(false, "[C01] request decoded as the kind its function code names"),
        },
        6 => match r {
            Request::WriteSingleRegister(x) => k(Request::WriteSingleRegister(x)),
            _ => assert!(false, "[C01] request decoded as the kind its function code names"),
        },
        15 => match r {
            Request::WriteMultipleCoils(x) => k(Request::WriteMultipleCoils(x)),
            _ => assert!(false, "[C01] request decoded as the kind its function code names"),
        },
        16 => match r {
            Request::WriteMultipleRegisters(x) => k(Request::WriteMultipleRegisters(x)),
            _ => assert!(false, "[C01] request decoded as the kind its function code names"),
        },
        _ => assert!(false, "harness: unsupported function code"),
    }
}

/// the bytes on the wire must be exactly the reference frame around the reference PDU
fn check_frame(out: &[u8], rtu: bool, unit: u8, tx: u16, pdu: &Pdu) {
    if rtu {
        assert!(out.len() == 1 + pdu.len + 2, "[C01] RTU reply length = address + PDU + CRC");
        assert!(out[0] == unit, "[C01] RTU reply echoes the unit id");
        let mut crc = tab_crc_step(0xFFFF, unit);
        let mut i = 0;
        while i < pdu.len {
            assert!(out[1 + i] == pdu.b[i], "[C01] RTU reply PDU bytes equal the reference reply");
            crc = tab_crc_step(crc, pdu.b[i]);
            i += 1;
        }
        assert!(out[1 + pdu.len] == (crc & 0xFF) as u8 && out[2 + pdu.len] == (crc >> 8) as u8,
            "[C06] emitted RTU frame ends with CRC-16/MODBUS of address+PDU, low byte first");
    } else {
        assert!(out.len() == 7 + pdu.len, "[C01] MBAP reply length = header + PDU");
        assert!(out[0] == (tx >> 8) as u8 && out[1] == tx as u8, "[C01] reply echoes the transaction id");
        assert!(out[2] == 0 && out[3] == 0, "[C01] protocol id 0");
        let l = (pdu.len + 1) as u16;
        assert!(out[4] == (l >> 8) as u8 && out[5] == l as u8, "[C01] MBAP length = unit id + PDU");
        assert!(out[6] == unit, "[C01] reply echoes the unit id");
        let mut i = 0;
        while i < pdu.len {
            assert!(out[7 + i] == pdu.b[i], "[C01] MBAP reply PDU bytes equal the reference reply");
            i += 1;
        }
    }
}

// ---------------------------------------------------------------------------------------------

//@ props: C01 C07
//@ peer: yes
//@ fns: common::function::FunctionCode::get, FunctionCode::get_value, FunctionCode::as_error, common::frame::FunctionField::get_value
//@ bounds: exhaustive - all 256 function code bytes
#[kani::proof]
fn c01_function_code_table() {
    let v: u8 = kani::any();
    let supported = matches!(v, 1 | 2 | 3 | 4 | 5 | 6 | 15 | 16);
    match FunctionCode::get(v) {
        Some(fc) => {
            assert!(supported, "[C01] only the eight supported function codes are dispatched");
            assert!(fc.get_value() == v, "[C01] function code round-trips");
            assert!(fc.as_error() == v | 0x80);
            assert!(FunctionField::Valid(fc).get_value() == v);
            assert!(FunctionField::Exception(fc).get_value() == v | 0x80, "[C01] exception replies set the high bit");
        }
        None => assert!(!supported, "[C01] every supported function code is recognised"),
    }
    assert!(FunctionField::unknown(v).get_value() == v | 0x80, "[C01] exception 01 reply carries fc|0x80");
    kani::cover!(supported, "supported");
    kani::cover!(!supported && v >= 0x80, "unsupported, high bit already set");
}

/// `Request::parse` accepts exactly the requests the reference classifies as valid, and decodes the same fields.
/// Full-size payloads: no loop depends on the payload (`read_bytes` returns a sub-slice).
fn parse_validity(fc: u8) {
    let function = FunctionCode::get(fc).unwrap();
    let payload: [u8; 252] = kani::any();
    let len: usize = kani::any();
    kani::assume(len <= 252);
    let p = &payload[..len];
    let want = ref_classify(fc, p);
    let mut cursor = ReadCursor::new(p);
    let got = Request::parse(function, &mut cursor);
    match got {
        Err(_) => assert!(want == RefReq::Invalid, "[C01] a valid request within the protocol limits is accepted"),
        Ok(req) => {
            assert!(want != RefReq::Invalid, "[C01] invalid length / range / coil value / over-limit quantity is rejected (exception 03)");
            assert!(req.get_function() == function);
            match (req, want) {
                (Request::ReadCoils(r), RefReq::ReadBits { start, count }) => assert!(fc == 1 && r.inner.start == start && r.inner.count == count, "[C02] decoded range"),
                (Request::ReadDiscreteInputs(r), RefReq::ReadBits { start, count }) => assert!(fc == 2 && r.inner.start == start && r.inner.count == count, "[C02] decoded range"),
                (Request::ReadHoldingRegisters(r), RefReq::ReadRegs { start, count }) => assert!(fc == 3 && r.inner.start == start && r.inner.count == count, "[C02] decoded range"),
                (Request::ReadInputRegisters(r), RefReq::ReadRegs { start, count }) => assert!(fc == 4 && r.inner.start == start && r.inner.count == count, "[C02] decoded range"),
                (Request::WriteSingleCoil(x), RefReq::WriteCoil { index, on }) => assert!(x.index == index && x.value == on, "[C02] decoded coil"),
                (Request::WriteSingleRegister(x), RefReq::WriteReg { index, value }) => assert!(x.index == index && x.value == value, "[C02] decoded register"),
                (Request::WriteMultipleCoils(x), RefReq::WriteCoils { start, count }) => {
                    assert!(x.range.start == start && x.range.count == count, "[C02] decoded range");
                    assert!(x.iterator.len() == count as usize, "[C02] iterator announces exactly count items");
                }
                (Request::WriteMultipleRegisters(x), RefReq::WriteRegs { start, count }) => {
                    assert!(x.range.start == start && x.range.count == count, "[C02] decoded range");
                    assert!(x.iterator.len() == count as usize, "[C02] iterator announces exactly count items");
                }
                _ => assert!(false, "[C01] request decoded as a different kind"),
            }
        }
    }
    kani::cover!(want != RefReq::Invalid, "accepted request");
    kani::cover!(want == RefReq::Invalid && len == 4, "rejected with plausible length");
    kani::cover!(want == RefReq::Invalid && len > 4, "rejected, long payload");
}

//@ props: C01 C02 C07
//@ peer: yes
//@ fns: server::request::Request::parse (read arms), common::parse::<AddressRange as Parse>::parse, types::AddressRange::try_from, AddressRange::of_read_bits, AddressRange::of_read_registers, AddressRange::limited_count
//@ bounds: function codes 1-4, every payload of 0..=252 bytes (no payload-dependent loop)
#[kani::proof]
#[kani::unwind(4)]
fn c01_parse_validity_reads() {
    // one call site per function code so that the code is a constant inside each call (symex prunes the other arms)
    let k: u8 = kani::any();
    match k {
        0 => parse_validity(1),
        1 => parse_validity(2),
        2 => parse_validity(3),
        _ => parse_validity(4),
    }
}

//@ props: C01 C02 C07
//@ peer: yes
//@ fns: server::request::Request::parse (write-single arms), common::parse::<Indexed<bool> as Parse>::parse, <Indexed<u16> as Parse>::parse, types::coil_from_u16
//@ bounds: function codes 5-6, every payload of 0..=252 bytes
#[kani::proof]
#[kani::unwind(4)]
fn c01_parse_validity_write_single() {
    if kani::any() {
        parse_validity(5)
    } else {
        parse_validity(6)
    }
}

//@ props: C01 C02 C07
//@ peer: yes
//@ timeout: 900
//@ fns: server::request::Request::parse (write-multiple arms), types::BitIterator::parse_all, RegisterIterator::parse_all, common::bits::num_bytes_for_bits
//@ bounds: function codes 15-16, every payload of 0..=252 bytes (includes the quantity limits 1968 coils / 123 registers)
#[kani::proof]
#[kani::unwind(4)]
fn c01_parse_validity_write_multiple() {
    if kani::any() {
        parse_validity(15)
    } else {
        parse_validity(16)
    }
}

// ---------------------------------------------------------------------------------------------
// reply construction

fn read_bits_kernel<const MAXQ: u16>(fc: u8, rtu: bool) {
    let unit: u8 = kani::any();
    let tx: u16 = kani::any();
    kani::assume(!rtu || unit != 0);
    let p: [u8; 4] = kani::any();
    let t = Tables::any();
    let level = any_decode_level();
    let start = be16(p[0], p[1]);
    let count = be16(p[2], p[3]);
    kani::assume(count <= MAXQ); // stated bound; count == 0 and overflowing ranges stay in
    let mut h = VH::new(t, 0);
    let mut w = any_writer(rtu);
    let mut cursor = ReadCursor::new(&p);
    let req = Request::parse(FunctionCode::get(fc).unwrap(), &mut cursor);
    match ref_classify(fc, &p) {
        RefReq::ReadBits { start, count } => {
            let req = must!(req, "[C01] a valid request is accepted");
            with_pinned(fc, req, |req| {
            let out = must!(req.get_reply(header(rtu, unit, tx), &mut h, &mut w, level), "[C01] a reply is produced");
            let (n_reads, ex) = ref_reads(&t, start, count);
            let mut pdu = Pdu::new();
            match ex {
                Some(e) => pdu = Pdu::exception(fc, e),
                None => {
                    let nbytes = (count + 7) / 8;
                    pdu.push(fc);
                    pdu.push(nbytes as u8);
                    let mut byte = 0u16;
                    while byte < nbytes {
                        let mut acc = 0u8;
                        let mut bit = 0u16;
                        while bit < 8 {
                            let k = byte * 8 + bit;
                            if k < count {
                                let a = start + k;
                                let v = if fc == 1 { t.coil(a) } else { t.di(a) };
                                if v {
                                    acc |= 1 << bit; // LSB first, padding bits zero
                                }
                            }
                            bit += 1;
                        }
                        pdu.push(acc);
                        byte += 1;
                    }
                }
            }
            check_frame(out, rtu, unit, tx, &pdu);
            assert!(h.writes == 0, "[C02] a read never invokes a write handler");
            assert!(h.read_kinds.get() == fc, "[C02] only the matching read handler is queried");
            assert!(h.reads.get() == n_reads, "[C02] each address is queried once, stopping at the first exception");
            assert!(h.first_read.get() == start && h.reads_in_order.get(), "[C02] reads query exactly start, start+1, ... in order");
            assert!(h.last_read.get() as u32 == start as u32 + n_reads - 1, "[C02] reads stay inside the requested range");
            kani::cover!(ex.is_some(), "handler raised an exception");
            kani::cover!(ex.is_none() && count == MAXQ, "largest quantity in bound answered with data");
            kani::cover!(ex.is_none() && count % 8 != 0, "partial last byte");
            });
        }
        RefReq::Invalid => {
            assert!(req.is_err(), "[C01] invalid read is rejected");
            kani::cover!(count == 0, "zero quantity rejected");
            kani::cover!(count != 0, "address overflow rejected");
        }
        _ => assert!(false),
    }
    std::mem::forget(h);
}

//@ props: C01 C02 C07 C20
//@ peer: yes
//@ timeout: 900
//@ fns: server::request::Request::parse, Request::get_reply, common::serialize::<BitWriter as Serialize>::serialize, common::frame::FrameWriter::format_reply, FrameWriter::format_ex, FrameWriter::format_generic, tcp::frame::format_mbap, types::AddressIterator::next, common::serialize::calc_bytes_for_bits
//@ bounds: fc 1-2, quantity 0..=16, every start address, every unit/tx id, symbolic point tables + exception address, all 36 decode levels, arbitrary writer residue; unwind 18
//@ outside: quantities 17..2000 (loop trip count grows with the quantity; the limits themselves are decided by c01_parse_validity_reads)
#[kani::proof]
#[kani::unwind(18)]
fn c01_read_bits_mbap_q() {
    if kani::any() {
        read_bits_kernel::<16>(1, false);
    } else {
        read_bits_kernel::<16>(2, false);
    }
}

//@ props: C01 C02 C06 C07~ C20~
//@ peer: yes
//@ timeout: 900
//@ fns: server::request::Request::get_reply, serial::frame::format_rtu_pdu, crc::Crc<u16>::checksum
//@ bounds: fc 1, quantity 0..=8, RTU framing, unit 1..=255; unwind 10
#[kani::proof]
#[kani::unwind(10)]
fn c01_read_bits_rtu_q() {
    // one function code per RTU query: both in one query exceeded 12 GB
    read_bits_kernel::<8>(1, true);
}

//@ props: C01 C02 C06 C07~ C20~
//@ peer: yes
//@ tier: thorough
//@ timeout: 1800
//@ fns: server::request::Request::get_reply, serial::frame::format_rtu_pdu
//@ bounds: fc 2, quantity 0..=8, RTU framing; unwind 10
#[kani::proof]
#[kani::unwind(10)]
fn c01_read_di_rtu_t() {
    read_bits_kernel::<8>(2, true);
}

fn read_regs_kernel<const MAXQ: u16>(fc: u8, rtu: bool) {
    let unit: u8 = kani::any();
    let tx: u16 = kani::any();
    kani::assume(!rtu || unit != 0);
    let p: [u8; 4] = kani::any();
    let t = Tables::any();
    let level = any_decode_level();
    let count = be16(p[2], p[3]);
    kani::assume(count <= MAXQ);
    let mut h = VH::new(t, 0);
    let mut w = any_writer(rtu);
    let mut cursor = ReadCursor::new(&p);
    let req = Request::parse(FunctionCode::get(fc).unwrap(), &mut cursor);
    match ref_classify(fc, &p) {
        RefReq::ReadRegs { start, count } => {
            let req = must!(req, "[C01] a valid request is accepted");
            with_pinned(fc, req, |req| {
            let out = must!(req.get_reply(header(rtu, unit, tx), &mut h, &mut w, level), "[C01] a reply is produced");
            let (n_reads, ex) = ref_reads(&t, start, count);
            let mut pdu = Pdu::new();
            match ex {
                Some(e) => pdu = Pdu::exception(fc, e),
                None => {
                    pdu.push(fc);
                    pdu.push((2 * count) as u8);
                    let mut k = 0u16;
                    while k < count {
                        let a = start + k;
                        let v = if fc == 3 { t.hreg(a) } else { t.ireg(a) };
                        pdu.push((v >> 8) as u8); // big endian
                        pdu.push(v as u8);
                        k += 1;
                    }
                }
            }
            check_frame(out, rtu, unit, tx, &pdu);
            assert!(h.writes == 0, "[C02] a read never invokes a write handler");
            assert!(h.read_kinds.get() == (if fc == 3 { 4 } else { 8 }), "[C02] only the matching read handler is queried");
            assert!(h.reads.get() == n_reads, "[C02] each address is queried once, stopping at the first exception");
            assert!(h.first_read.get() == start && h.reads_in_order.get(), "[C02] reads query exactly start, start+1, ... in order");
            kani::cover!(ex.is_some(), "handler raised an exception");
            kani::cover!(ex.is_none() && count == MAXQ, "largest quantity in bound answered with data");
            });
        }
        RefReq::Invalid => assert!(req.is_err(), "[C01] invalid read is rejected"),
        _ => assert!(false),
    }
    std::mem::forget(h);
}

//@ props: C01 C02 C07~ C20~
//@ peer: yes
//@ timeout: 900
//@ fns: server::request::Request::parse, Request::get_reply, common::serialize::<RegisterWriter as Serialize>::serialize, common::serialize::calc_bytes_for_registers, common::frame::FrameWriter::format_reply, tcp::frame::format_mbap
//@ bounds: fc 3-4, quantity 0..=6, every start address, symbolic tables, all decode levels, arbitrary writer residue; unwind 16
#[kani::proof]
#[kani::unwind(16)]
fn c01_read_regs_mbap_q() {
    if kani::any() {
        read_regs_kernel::<6>(3, false);
    } else {
        read_regs_kernel::<6>(4, false);
    }
}

//@ props: C01 C02 C06 C07~ C20~
//@ peer: yes
//@ timeout: 900
//@ fns: server::request::Request::get_reply, serial::frame::format_rtu_pdu
//@ bounds: fc 3, quantity 0..=3, RTU framing; unwind 10
#[kani::proof]
#[kani::unwind(10)]
fn c01_read_regs_rtu_q() {
    read_regs_kernel::<3>(3, true);
}

//@ props: C01 C02 C06 C07~ C20~
//@ peer: yes
//@ tier: thorough
//@ timeout: 1800
//@ fns: server::request::Request::get_reply, serial::frame::format_rtu_pdu
//@ bounds: fc 4, quantity 0..=3, RTU framing; unwind 10
#[kani::proof]
#[kani::unwind(10)]
fn c01_read_iregs_rtu_t() {
    read_regs_kernel::<3>(4, true);
}

fn write_single_kernel(fc: u8, rtu: bool) {
    let unit: u8 = kani::any();
    let tx: u16 = kani::any();
    kani::assume(!rtu || unit != 0);
    let p: [u8; 4] = kani::any();
    let t = Tables::any();
    let level = any_decode_level();
    let mut h = VH::new(t, 0);
    let mut w = any_writer(rtu);
    let mut cursor = ReadCursor::new(&p);
    let req = Request::parse(FunctionCode::get(fc).unwrap(), &mut cursor);
    let cls = ref_classify(fc, &p);
    match cls {
        RefReq::WriteCoil { .. } | RefReq::WriteReg { .. } => {
            let req = must!(req, "[C01] a valid request is accepted");
            with_pinned(fc, req, |req| {
            let out = must!(req.get_reply(header(rtu, unit, tx), &mut h, &mut w, level), "[C01] a reply is produced");
            let mut pdu = Pdu::new();
            match t.write_result {
                Err(e) => pdu = Pdu::exception(fc, e),
                Ok(()) => {
                    // echo of the request
                    pdu.push(fc);
                    pdu.push(p[0]);
                    pdu.push(p[1]);
                    pdu.push(p[2]);
                    pdu.push(p[3]);
                }
            }
            check_frame(out, rtu, unit, tx, &pdu);
            assert!(h.reads.get() == 0, "[C02] a write never queries a read handler");
            assert!(h.writes == 1, "[C02] the write handler is invoked exactly once");
            match cls {
                RefReq::WriteCoil { index, on } => assert!(h.write_kind == 1 && h.w_start == index && h.w_value == on as u16, "[C02] write_single_coil receives exactly the address and value sent"),
                RefReq::WriteReg { index, value } => assert!(h.write_kind == 2 && h.w_start == index && h.w_value == value, "[C02] write_single_register receives exactly the address and value sent"),
                _ => {}
            }
            kani::cover!(t.write_result.is_err(), "handler refused the write");
            kani::cover!(t.write_result.is_ok() && fc == 5, "coil written");
            kani::cover!(t.write_result.is_ok() && fc == 6, "register written");
            });
        }
        RefReq::Invalid => {
            assert!(req.is_err(), "[C01] undefined coil value is rejected");
            kani::cover!(fc == 5, "undefined coil value");
        }
        _ => assert!(false),
    }
    assert!(cls != RefReq::Invalid || h.calls() == 0, "[C02] a rejected request invokes no handler");
    std::mem::forget(h);
}

//@ props: C01 C02 C07 C20
//@ peer: yes
//@ fns: server::request::Request::parse, Request::get_reply (write_result), common::serialize::<Indexed<bool> as Serialize>::serialize, <Indexed<u16> as Serialize>::serialize, types::coil_to_u16
//@ bounds: fc 5-6, every 4-byte payload, every handler result (all 256 exception codes), all decode levels; unwind 8
#[kani::proof]
#[kani::unwind(8)]
fn c01_write_single_mbap() {
    if kani::any() {
        write_single_kernel(5, false);
    } else {
        write_single_kernel(6, false);
    }
}

//@ props: C01 C02 C06 C07~ C20~
//@ peer: yes
//@ fns: server::request::Request::get_reply, serial::frame::format_rtu_pdu
//@ bounds: fc 5-6, RTU framing; unwind 8
#[kani::proof]
#[kani::unwind(10)]
fn c01_write_single_rtu() {
    if kani::any() {
        write_single_kernel(5, true);
    } else {
        write_single_kernel(6, true);
    }
}

/// write multiple coils/registers with `DATA` data bytes
fn write_multiple_kernel<const DATA: usize>(fc: u8, rtu: bool) {
    let unit: u8 = kani::any();
    let tx: u16 = kani::any();
    kani::assume(!rtu || unit != 0);
    let p: [u8; 27] = kani::any();
    let len: usize = kani::any();
    kani::assume(len <= 5 + DATA);
    let payload = &p[..len];
    let t = Tables::any();
    let level = any_decode_level();
    let probe: u16 = kani::any();
    let mut h = VH::new(t, probe);
    let mut w = any_writer(rtu);
    let mut cursor = ReadCursor::new(payload);
    let req = Request::parse(FunctionCode::get(fc).unwrap(), &mut cursor);
    let cls = ref_classify(fc, payload);
    match cls {
        RefReq::WriteCoils { start, count } | RefReq::WriteRegs { start, count } => {
            let req = must!(req, "[C01] a valid request is accepted");
            with_pinned(fc, req, |req| {
            let out = must!(req.get_reply(header(rtu, unit, tx), &mut h, &mut w, level), "[C01] a reply is produced");
            let mut pdu = Pdu::new();
            match t.write_result {
                Err(e) => pdu = Pdu::exception(fc, e),
                Ok(()) => {
                    // reply = function, start, quantity
                    pdu.push(fc);
                    pdu.push(p[0]);
                    pdu.push(p[1]);
                    pdu.push(p[2]);
                    pdu.push(p[3]);
                }
            }
            check_frame(out, rtu, unit, tx, &pdu);
            assert!(h.reads.get() == 0, "[C02] a write never queries a read handler");
            assert!(h.writes == 1, "[C02] the write handler is invoked exactly once");
            assert!(h.write_kind == (if fc == 15 { 4 } else { 8 }), "[C02] the matching write handler is invoked");
            assert!(h.w_start == start && h.w_count == count, "[C02] the handler receives exactly the range sent");
            assert!(h.w_items == count as u32, "[C02] the value iterator yields exactly `count` items");
            assert!(h.w_seq_ok, "[C02] items are indexed start, start+1, ...");
            if probe < count {
                assert!(h.probe_hit && h.probe_index == start + probe, "[C02] item address");
                let want = if fc == 15 {
                    ((p[5 + (probe / 8) as usize] >> (probe % 8)) & 1) as u16 // LSB first
                } else {
                    be16(p[5 + 2 * probe as usize], p[6 + 2 * probe as usize]) // big endian
                };
                assert!(h.probe_value == want, "[C02] the handler receives exactly the values sent");
            }
            kani::cover!(t.write_result.is_err(), "handler refused the write");
            kani::cover!(t.write_result.is_ok() && count as usize * (if fc == 15 { 1 } else { 16 }) > 8 * (DATA - 1), "largest quantity in bound");
            kani::cover!(count > 0 && probe == count - 1, "last item probed");
            });
        }
        RefReq::Invalid => {
            assert!(req.is_err(), "[C01] wrong length for the quantity / bad range is rejected");
            assert!(h.calls() == 0, "[C02] a rejected request invokes no handler");
            kani::cover!(len >= 6, "rejected although long enough for a header");
        }
        _ => assert!(false),
    }
    std::mem::forget(h);
}

//@ props: C01 C02 C07~ C20~
//@ peer: yes
//@ timeout: 1200
//@ fns: server::request::Request::parse, Request::get_reply, types::BitIterator::parse_all, <BitIterator as Iterator>::next, common::serialize::<AddressRange as Serialize>::serialize, FrameWriter::format_reply
//@ bounds: fc 15, payload 0..=7 bytes (<= 2 data bytes = 16 coils), symbolic probe of every item; unwind 18
//@ outside: more than 16 coils per request in this harness (limits: c01_parse_validity_write_multiple)
#[kani::proof]
#[kani::unwind(18)]
fn c01_write_coils_mbap_q() {
    write_multiple_kernel::<2>(15, false);
}

//@ props: C01 C02 C07 C20
//@ peer: yes
//@ timeout: 1200
//@ fns: server::request::Request::parse, Request::get_reply, types::RegisterIterator::parse_all, <RegisterIterator as Iterator>::next
//@ bounds: fc 16, payload 0..=11 bytes (<= 3 registers), symbolic probe; unwind 14
#[kani::proof]
#[kani::unwind(14)]
fn c01_write_regs_mbap_q() {
    write_multiple_kernel::<6>(16, false);
}

//@ props: C01 C02 C06 C07~ C20~
//@ peer: yes
//@ timeout: 1200
//@ fns: server::request::Request::get_reply, serial::frame::format_rtu_pdu
//@ bounds: fc 15 and 16 over RTU, <= 1 data byte / 1 register; unwind 10
#[kani::proof]
#[kani::unwind(10)]
fn c01_write_multiple_rtu_q() {
    if kani::any() {
        write_multiple_kernel::<1>(15, true);
    } else {
        write_multiple_kernel::<2>(16, true);
    }
}

//@ props: C01 C07 C20
//@ peer: yes
//@ fns: common::frame::FrameWriter::format_ex, FrameWriter::format_generic, tcp::frame::format_mbap, serial::frame::format_rtu_pdu, <ExceptionCode as Serialize>::serialize, <u8 as From<ExceptionCode>>::from
//@ bounds: every function byte (unknown-function replies) and every supported function (exception replies), all 256 exception codes, MBAP and RTU, all decode levels, arbitrary writer residue
#[kani::proof]
#[kani::unwind(10)]
fn c01_exception_frames() {
    let rtu: bool = kani::any();
    let unit: u8 = kani::any();
    let tx: u16 = kani::any();
    kani::assume(!rtu || unit != 0);
    let fcb: u8 = kani::any();
    let ex = any_exception();
    let level = any_decode_level();
    let mut w = any_writer(rtu);
    let field = match FunctionCode::get(fcb) {
        Some(f) => if kani::any() { FunctionField::Exception(f) } else { FunctionField::Valid(f) },
        None => FunctionField::unknown(fcb),
    };
    let out = must!(w.format_ex(header(rtu, unit, tx), field, ex, level), "[C01] an exception reply is produced");
    let pdu = Pdu::exception(fcb, ex);
    check_frame(out, rtu, unit, tx, &pdu);
    kani::cover!(rtu && FunctionCode::get(fcb).is_none(), "unknown function over RTU");
    kani::cover!(!rtu && matches!(ex, ExceptionCode::Unknown(_)), "non-standard exception code over MBAP");
}
