//! Harnesses attached to rodbus/src/types.rs (ranges, limits, iterators)
#![allow(unused)]
use super::*;

//@ props: C03 C01 C07
//@ peer: yes
//@ fns: types::AddressRange::try_from, AddressRange::to_std_range
//@ bounds: none - all 2^32 (start, count) pairs
#[kani::proof]
fn c03_address_range_all() {
    let start: u16 = kani::any();
    let count: u16 = kani::any();
    let valid = count >= 1 && (start as u32) + (count as u32) <= 65536;
    match AddressRange::try_from(start, count) {
        Ok(r) => {
            assert!(valid, "[C03] empty and address-overflowing ranges are rejected");
            assert!(r.start == start && r.count == count, "[C03] range fields preserved");
            let s = r.to_std_range();
            assert!(s.start == start as usize && s.end == start as usize + count as usize);
        }
        Err(e) => {
            assert!(!valid, "[C03] every non-empty range ending at or below 0xFFFF is accepted");
            if count == 0 {
                assert!(e == InvalidRange::CountOfZero);
            } else {
                assert!(e == InvalidRange::AddressOverflow(start, count));
            }
        }
    }
    kani::cover!(valid && start == 0xFFFF, "last address");
    kani::cover!(valid && count == 0xFFFF, "largest count");
    kani::cover!(!valid && count != 0, "overflow");
}

//@ props: C03 C01
//@ fns: types::AddressRange::of_read_bits, AddressRange::of_read_registers, AddressRange::limited_count
//@ bounds: none - all valid ranges
#[kani::proof]
fn c03_read_limits_all() {
    let start: u16 = kani::any();
    let count: u16 = kani::any();
    let r = match AddressRange::try_from(start, count) {
        Ok(r) => r,
        Err(_) => return,
    };
    match r.of_read_bits() {
        Ok(x) => assert!(count <= 2000 && x.get() == r, "[C03] at most 2000 bits per read"),
        Err(e) => assert!(count > 2000 && e == InvalidRange::CountTooLargeForType(count, 2000), "[C03] exactly the reads above 2000 bits are refused"),
    }
    match r.of_read_registers() {
        Ok(x) => assert!(count <= 125 && x.get() == r, "[C03] at most 125 registers per read"),
        Err(e) => assert!(count > 125 && e == InvalidRange::CountTooLargeForType(count, 125), "[C03] exactly the reads above 125 registers are refused"),
    }
    kani::cover!(count == 2000, "2000 bits allowed");
    kani::cover!(count == 2001, "2001 bits refused");
    kani::cover!(count == 125, "125 registers allowed");
    kani::cover!(count == 126, "126 registers refused");
}

//@ props: C07 C01
//@ peer: yes
//@ fns: types::AddressIterator::new, <AddressIterator as Iterator>::next, AddressRange::iter
//@ bounds: none - one step from every state reachable through a validated range (current + remain <= 65536)
/// the address iterator used for every server read must not overflow at the end of the address space
#[kani::proof]
fn c07_address_iterator_step() {
    let start: u16 = kani::any();
    let count: u16 = kani::any();
    let r = match AddressRange::try_from(start, count) {
        Ok(r) => r,
        Err(_) => return,
    };
    // arbitrary position inside the validated range
    let pos: u16 = kani::any();
    kani::assume(pos < count);
    let mut it = AddressIterator::new(start + pos, count - pos);
    let got = it.next();
    assert!(got == Some(start + pos), "[C02] addresses are yielded in order");
    assert!(it.remain == count - pos - 1);
    let mut done = AddressIterator::new(start, 0);
    assert!(done.next().is_none(), "[C02] nothing beyond the requested range");
    kani::cover!(start as u32 + count as u32 == 65536 && pos + 1 == count, "last step of a range ending at 0xFFFF");
}

//@ props: C07 C04 C02
//@ peer: yes
//@ timeout: 600
//@ fns: <types::BitIterator as Iterator>::next, BitIterator::size_hint, <RegisterIterator as Iterator>::next, RegisterIterator::size_hint, BitIterator::parse_all, RegisterIterator::parse_all
//@ bounds: none - one step from every (range, pos) state with pos <= count over a backing slice of the parsed length (<= 8 bytes encoded, position symbolic)
#[kani::proof]
#[kani::unwind(4)]
fn c07_value_iterators_step() {
    let start: u16 = kani::any();
    let count: u16 = kani::any();
    kani::assume(count >= 1 && count <= 32 && (start as u32) + (count as u32) <= 65536);
    let range = AddressRange { start, count };
    let bytes: [u8; 8] = kani::any();
    let pos: u16 = kani::any();
    kani::assume(pos <= count);
    let nb = (count as usize + 7) / 8;
    let mut bi = BitIterator { bytes: &bytes[..nb], range, pos };
    let (lo, hi) = bi.size_hint();
    assert!(lo == (count - pos) as usize && hi == Some(lo));
    match bi.next() {
        Some(x) => {
            assert!(pos < count && x.index == start + pos, "[C04] bit index");
            assert!(x.value == ((bytes[(pos / 8) as usize] >> (pos % 8)) & 1 == 1), "[C04] LSB-first bit value");
            assert!(bi.pos == pos + 1);
        }
        None => assert!(pos == count, "[C04] exactly count items"),
    }
    kani::assume(count <= 4);
    let mut ri = RegisterIterator { bytes: &bytes[..2 * count as usize], range, pos };
    match ri.next() {
        Some(x) => {
            assert!(pos < count && x.index == start + pos, "[C04] register index");
            assert!(x.value == ((bytes[2 * pos as usize] as u16) << 8 | bytes[2 * pos as usize + 1] as u16), "[C04] big-endian register value");
        }
        None => assert!(pos == count, "[C04] exactly count items"),
    }
    kani::cover!(start as u32 + count as u32 == 65536 && pos + 1 == count, "last item at 0xFFFF");
    kani::cover!(pos == count, "exhausted");
}
