//! Harnesses attached to rodbus/src/common/buffer.rs (ReadBuffer)
#![allow(unused)]
use super::*;
use crate::verif_support::*;

pub(crate) const CAP: usize = crate::common::frame::constants::MAX_FRAME_LENGTH;

/// a read buffer in an ARBITRARY state whose logical content is `content[..len]`, stored at offset `begin`
/// (everything outside [begin, begin+len) is arbitrary residue of earlier traffic)
pub(crate) fn buffer_with<const N: usize>(content: &[u8; N], len: usize, begin: usize) -> ReadBuffer {
    let mut b = ReadBuffer { buffer: kani::any(), begin, end: begin + len };
    let mut i = 0;
    while i < N {
        if i < len {
            b.buffer[begin + i] = content[i];
        }
        i += 1;
    }
    b
}

/// make `n` more bytes (already present in the backing array) visible, as a read would
pub(crate) fn extend(b: &mut ReadBuffer, n: usize) {
    b.end += n;
}

/// deliver `content[from..to]` (stream positions, the stream starts at array index 0) as a read would: the bytes are
/// stored behind the ones already buffered and become visible
pub(crate) fn deliver<const N: usize>(b: &mut ReadBuffer, content: &[u8; N], from: usize, to: usize) {
    let mut i = from;
    while i < to {
        b.buffer[i] = content[i];
        i += 1;
    }
    b.end = to;
}

pub(crate) fn begin_of(b: &ReadBuffer) -> usize {
    b.begin
}

pub(crate) fn peek(b: &ReadBuffer, i: usize) -> u8 {
    b.buffer[b.begin + i]
}

pub(crate) fn invariant(b: &ReadBuffer) -> bool {
    b.begin <= b.end && b.end <= CAP
}

//@ props: C05 C07~
//@ peer: yes
//@ timeout: 900
//@ fns: common::buffer::ReadBuffer::read_some, ReadBuffer::is_empty, ReadBuffer::len, common::phys::PhysLayer::read (in-memory transport)
//@ bounds: none on the buffer - one step from an ARBITRARY state (begin <= end <= 260, arbitrary content); the transport offers 0..=4 bytes and delivers a solver-chosen chunk
//@ stubs: transport = VerifIo (hook H1): never pends, chunk size arbitrary >= 1
/// a read never loses, reorders or re-reads buffered bytes, appends exactly what the transport delivered,
/// compacts when the end of the array is reached, and always asks the transport for at least one byte
/// unless the buffer really holds 260 unconsumed bytes
#[kani::proof]
#[kani::unwind(6)]
fn c05_read_some_step() {
    let begin: usize = kani::any();
    let end: usize = kani::any();
    kani::assume(begin <= end && end <= CAP);
    let mut b = ReadBuffer { buffer: kani::any(), begin, end };
    let old_len = end - begin;
    // remember one arbitrary buffered byte (symbolic index => all of them)
    let j: usize = kani::any();
    kani::assume(j < CAP);
    let have_j = j < old_len;
    let old_j = if have_j { b.buffer[begin + j] } else { 0 };
    let mut io = VerifIo::new();
    let input: [u8; 4] = kani::any();
    let in_len: usize = kani::any();
    kani::assume(in_len <= 4);
    let mut i = 0;
    while i < 4 {
        io.input[i] = input[i];
        i += 1;
    }
    io.in_len = in_len;
    let mut phys = PhysLayer::new_verif(io);
    let level = any_decode_level();
    let res = block_on(b.read_some(&mut phys, level.physical));
    assert!(b.begin <= b.end && b.end <= CAP, "[C05] buffer indices stay valid");
    match res {
        Ok(n) => {
            assert!(n >= 1 && n <= in_len, "[C05] a successful read makes progress");
            assert!(b.end - b.begin == old_len + n, "[C05] bytes after a frame are never lost or re-read");
            assert!(!have_j || b.buffer[b.begin + j] == old_j, "[C05] buffered bytes are preserved in order across a read (compaction included)");
            let k: usize = kani::any();
            kani::assume(k < n);
            assert!(b.buffer[b.begin + old_len + k] == input[k], "[C05] new bytes are appended in arrival order");
            kani::cover!(end == CAP && begin > 0, "compaction: end of array reached with consumed bytes in front");
            kani::cover!(old_len == 0 && begin > 0, "empty buffer rewinds");
        }
        Err(_) => {
            assert!(in_len == 0 || old_len == CAP, "[C05] a read fails only on end-of-stream or a buffer that really is full");
            assert!(b.end - b.begin == old_len, "[C05] a failed read changes nothing that is buffered");
            kani::cover!(in_len == 0, "end of stream");
        }
    }
    assert!(phys.verif().reads == 1, "[C07] exactly one transport read per call");
    std::mem::forget(phys);
}

//@ props: C05 C07
//@ peer: yes
//@ fns: common::buffer::ReadBuffer::read, ReadBuffer::read_u8, ReadBuffer::read_u16_be, ReadBuffer::read_u16_le, ReadBuffer::peek_at
//@ bounds: none - ARBITRARY buffer state, arbitrary requested count / index
/// accessors never read outside the logical content and consume exactly what they return
#[kani::proof]
#[kani::unwind(4)]
fn c05_buffer_accessors() {
    let begin: usize = kani::any();
    let end: usize = kani::any();
    kani::assume(begin <= end && end <= CAP);
    let mut b = ReadBuffer { buffer: kani::any(), begin, end };
    let len = end - begin;
    let which: u8 = kani::any();
    match which {
        0 => {
            let count: usize = kani::any();
            let first = if len > 0 { b.buffer[begin] } else { 0 };
            match b.read(count) {
                Ok(s) => {
                    assert!(count <= len && s.len() == count, "[C05] read(count) yields exactly count buffered bytes");
                    if count > 0 {
                        assert!(s[0] == first);
                    }
                }
                Err(_) => assert!(count > len, "[C05] read fails only when fewer bytes are buffered"),
            }
            assert!(b.begin == begin + if count <= len { count } else { 0 }, "[C05] exactly the returned bytes are consumed");
        }
        1 => {
            let hi = if len > 0 { b.buffer[begin] } else { 0 };
            let lo = if len > 1 { b.buffer[begin + 1] } else { 0 };
            match b.read_u16_be() {
                Ok(v) => assert!(len >= 2 && v == ((hi as u16) << 8 | lo as u16) && b.begin == begin + 2),
                Err(_) => assert!(len < 2),
            }
        }
        2 => {
            let lo = if len > 0 { b.buffer[begin] } else { 0 };
            let hi = if len > 1 { b.buffer[begin + 1] } else { 0 };
            match b.read_u16_le() {
                Ok(v) => assert!(len >= 2 && v == ((hi as u16) << 8 | lo as u16) && b.begin == begin + 2),
                Err(_) => assert!(len < 2),
            }
        }
        _ => {
            let idx: usize = kani::any();
            kani::assume(idx < 400);
            let r = b.peek_at(idx);
            assert!(b.begin == begin, "peek consumes nothing");
            if idx < len {
                assert!(r == Ok(b.buffer[begin + idx]));
            }
        }
    }
    assert!(b.begin <= b.end && b.end == end);
    kani::cover!(which == 0 && len == CAP, "full buffer");
    kani::cover!(which == 1 && len == 1, "half a u16 buffered");
}
