//! Harnesses attached to rodbus/src/server/address_filter.rs
#![allow(unused)]
use super::*;
use std::net::{IpAddr, Ipv4Addr, Ipv6Addr};

fn any_opt_u8() -> Option<u8> {
    if kani::any() {
        Some(kani::any())
    } else {
        None
    }
}

//@ props: C16
//@ fns: server::address_filter::WildcardIPv4::matches
//@ bounds: none - all 4 x Option<u8> patterns x all 2^32 IPv4 addresses; all IPv6 addresses
#[kani::proof]
fn c16_wildcard_matches_all() {
    let wc = WildcardIPv4 { b3: any_opt_u8(), b2: any_opt_u8(), b1: any_opt_u8(), b0: any_opt_u8() };
    let o: [u8; 4] = kani::any();
    let got = wc.matches(IpAddr::V4(Ipv4Addr::new(o[0], o[1], o[2], o[3])));
    let f = |p: Option<u8>, b: u8| match p {
        None => true,
        Some(x) => x == b,
    };
    let want = f(wc.b3, o[0]) && f(wc.b2, o[1]) && f(wc.b1, o[2]) && f(wc.b0, o[3]);
    assert!(got == want, "[C16] a wildcard matches iff every field is '*' or equals the octet, most significant first");
    let v6: [u16; 8] = kani::any();
    let a6 = IpAddr::V6(Ipv6Addr::new(v6[0], v6[1], v6[2], v6[3], v6[4], v6[5], v6[6], v6[7]));
    assert!(!wc.matches(a6), "[C16] an IPv4 wildcard never matches an IPv6 peer");
    kani::cover!(got && wc.b3.is_some() && wc.b0.is_none(), "match with mixed pattern");
    kani::cover!(!got && wc.b3 == Some(o[0]) && wc.b2 == Some(o[1]) && wc.b1 == Some(o[2]), "mismatch only in the last octet");
}

//@ props: C16
//@ fns: server::address_filter::AddressFilter::matches (Any, Exact, WildcardIpv4 arms)
//@ bounds: none - all filter values of these three kinds x all IPv4 peers, exact v4/v6 cross cases
//@ outside: AnyOf(HashSet) - SipHash with RandomState needs a syscall stub, checked in the ffi engine; evaluation on accept in every server variant and forwarding by the constructors (async constructors, sockets)
#[kani::proof]
fn c16_filter_matches() {
    let o: [u8; 4] = kani::any();
    let peer = IpAddr::V4(Ipv4Addr::new(o[0], o[1], o[2], o[3]));
    assert!(AddressFilter::Any.matches(peer), "[C16] Any admits every peer");
    let e: [u8; 4] = kani::any();
    let exact = AddressFilter::Exact(IpAddr::V4(Ipv4Addr::new(e[0], e[1], e[2], e[3])));
    assert!(exact.matches(peer) == (e == o), "[C16] Exact admits only the identical address");
    let v6: [u16; 8] = kani::any();
    let p6 = IpAddr::V6(Ipv6Addr::new(v6[0], v6[1], v6[2], v6[3], v6[4], v6[5], v6[6], v6[7]));
    assert!(!exact.matches(p6), "[C16] an exact IPv4 filter rejects IPv6 peers");
    let wc = WildcardIPv4 { b3: any_opt_u8(), b2: any_opt_u8(), b1: any_opt_u8(), b0: any_opt_u8() };
    let f = AddressFilter::WildcardIpv4(wc);
    assert!(f.matches(peer) == wc.matches(peer), "[C16] the wildcard filter defers to the wildcard");
    kani::cover!(e == o, "exact hit");
    kani::cover!(e != o, "exact miss");
}

/// reference for one field: "*" or a decimal number 0..=255 in Rust's u8::from_str syntax
/// (optional leading '+', leading zeros allowed, at least one digit)
fn ref_field(s: &[u8]) -> Result<Option<u8>, ()> {
    if s.len() == 1 && s[0] == b'*' {
        return Ok(None);
    }
    let mut i = 0;
    if s.len() > 0 && s[0] == b'+' {
        i = 1;
    }
    if i >= s.len() {
        return Err(());
    }
    let mut v: u32 = 0;
    while i < s.len() {
        let c = s[i];
        if c < b'0' || c > b'9' {
            return Err(());
        }
        v = v * 10 + (c - b'0') as u32;
        if v > 255 {
            return Err(());
        }
        i += 1;
    }
    Ok(Some(v as u8))
}

//@ props: C16
//@ timeout: 900
//@ fns: server::address_filter::get_byte (u8::from_str)
//@ bounds: all ASCII strings of length 0..=4
//@ outside: non-ASCII input (rejected by u8::from_str byte-wise as well, not encoded); fields longer than 4 bytes (leading zeros)
#[kani::proof]
#[kani::unwind(6)]
fn c16_get_byte_field() {
    let len: usize = kani::any();
    kani::assume(len <= 4);
    let b: [u8; 4] = kani::any();
    kani::assume(b[0] < 128 && b[1] < 128 && b[2] < 128 && b[3] < 128);
    let s = core::str::from_utf8(&b[..len]).unwrap();
    let got = get_byte(s);
    let want = ref_field(&b[..len]);
    match (got, want) {
        (Ok(a), Ok(w)) => assert!(a == w, "[C16] field value"),
        (Err(_), Err(())) => {}
        _ => assert!(false, "[C16] a field is accepted iff it is '*' or a number 0-255"),
    }
    kani::cover!(matches!(want, Ok(Some(255))), "255 accepted");
    kani::cover!(len == 3 && want.is_err() && b[0] == b'2' && b[1] == b'5' && b[2] == b'6', "256 rejected");
    kani::cover!(matches!(want, Ok(None)), "star");
}

/// `WildcardIPv4::from_str` on a string whose SHAPE (where the dots are) is fixed by the call site and whose field
/// bytes are symbolic. With symbolic dot positions `str::split` made the query run > 15 min (design-phase probe);
/// with a concrete shape it is a handful of one-byte fields.
fn parse_shape<const L: usize>(shape: &[u8; L], expect_four_fields: bool) {
    // '#' in the shape = one symbolic field byte drawn from {'*', '0'..'9', 'x'}; anything else is literal
    let mut bytes = [0u8; L];
    let mut all_fields_valid = true;
    let mut i = 0;
    while i < L {
        if shape[i] == b'#' {
            let c: u8 = kani::any();
            kani::assume(c == b'*' || (c >= b'0' && c <= b'9') || c == b'x');
            if c == b'x' {
                all_fields_valid = false;
            }
            bytes[i] = c;
        } else {
            bytes[i] = shape[i];
        }
        i += 1;
    }
    let s = core::str::from_utf8(&bytes).unwrap();
    let got = s.parse::<WildcardIPv4>();
    let want_ok = expect_four_fields && all_fields_valid;
    assert!(got.is_ok() == want_ok, "[C16] a wildcard string is accepted iff it is exactly four dot-separated fields of '*' or a number 0-255");
    if let Ok(w) = got {
        // single-byte fields: '*' -> None, digit -> Some(digit)
        let f = |c: u8| if c == b'*' { None } else { Some(c - b'0') };
        assert!(w.b3 == f(bytes[0]) && w.b2 == f(bytes[2]) && w.b1 == f(bytes[4]) && w.b0 == f(bytes[6]), "[C16] fields are taken most significant first");
    }
}

// ATTEMPTED AND INTRACTABLE (unregistered): `str::split('.')` + `str::parse::<u8>` even with CONCRETE dot positions.
// Measured: ten shapes - time-out at 900 s; two shapes - symex 433 s, then out of memory. The split / arity logic of
// `WildcardIPv4::from_str` therefore stays NOT decided (seeded change C16-1, a trailing dot accepted, is missed).
//@ props: ZZ
//@ timeout: 900
#[kani::proof]
#[kani::unwind(12)]
fn zz16_from_str_two_shapes() {
    if kani::any() {
        parse_shape(b"#.#.#.#", true);
    } else {
        parse_shape(b"#.#.#.#.", false);
    }
}
