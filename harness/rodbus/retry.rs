//! Harnesses attached to rodbus/src/retry.rs
#![allow(unused)]
use super::*;

fn retry_script<const L: usize>() {
    // whole seconds only: Duration::from_millis (div/rem by 10^9) does not terminate in the bit-blaster
    let min_s: u32 = kani::any();
    let max_s: u32 = kani::any();
    kani::assume(min_s >= 1 && min_s <= max_s); // documented precondition of the strategy
    let min = Duration::from_secs(min_s as u64);
    let max = Duration::from_secs(max_s as u64);
    // through the public constructor and the trait object, as the tasks use it
    let mut s: Box<dyn RetryStrategy> = doubling_retry_strategy(min, max);
    // reference: number of consecutive failed connects since the last reset
    let mut expected: u64 = min_s as u64;
    let mut fails: usize = 0;
    let mut capped = false;
    let mut i = 0;
    while i < L {
        let op: u8 = kani::any();
        kani::assume(op < 3);
        match op {
            0 => {
                let d = s.after_failed_connect();
                assert!(d == Duration::from_secs(expected), "[C14] k-th consecutive failed connect waits min(min*2^(k-1), max)");
                assert!(d >= min && d <= max, "[C14] delay within [min, max]");
                if expected * 2 >= max_s as u64 {
                    capped = true;
                }
                expected = core::cmp::min(expected * 2, max_s as u64);
                fails += 1;
            }
            1 => {
                let d = s.after_disconnect();
                assert!(d == min, "[C14] after a lost connection the wait is min");
            }
            _ => {
                s.reset();
                expected = min_s as u64;
                fails = 0;
            }
        }
        i += 1;
    }
    kani::cover!(capped && fails >= 2, "cap reached after doubling");
    kani::cover!(fails == L, "only failures");
    kani::cover!(fails == 0, "reset or disconnect last");
    std::mem::forget(s);
}

//@ props: C14
//@ fns: retry::doubling_retry_strategy, Doubling::create, Doubling::after_failed_connect, Doubling::after_disconnect, Doubling::reset (through Box<dyn RetryStrategy>)
//@ bounds: min <= max whole seconds in 1..2^32, every call script of length 5 over {failed connect, disconnect, reset}
//@ outside: sub-second durations (bit-blasted div by 10^9 does not terminate); use of the strategy by the client / RTU-server tasks (async)
//@ stubs: assumes the documented precondition min <= max
#[kani::proof]
#[kani::unwind(7)]
fn c14_doubling_scripts_q() {
    retry_script::<5>();
}

//@ props: C14
//@ tier: thorough
//@ fns: retry::doubling_retry_strategy, Doubling::after_failed_connect, Doubling::after_disconnect, Doubling::reset
//@ bounds: min <= max whole seconds in 1..2^32, every call script of length 10
#[kani::proof]
#[kani::unwind(12)]
fn c14_doubling_scripts_t() {
    retry_script::<10>();
}

//@ props: C14
//@ fns: retry::Doubling::after_failed_connect
//@ bounds: none - one step from an ARBITRARY strategy state with min <= current <= max, unrestricted u64 seconds
/// the doubling step must not panic for any representable configuration (2 * current overflows Duration
/// for current > Duration::MAX / 2)
#[kani::proof]
fn c14_doubling_step_any_state() {
    let min_s: u64 = kani::any();
    let cur_s: u64 = kani::any();
    let max_s: u64 = kani::any();
    kani::assume(min_s <= cur_s && cur_s <= max_s);
    let mut d = Doubling {
        min: Duration::from_secs(min_s),
        max: Duration::from_secs(max_s),
        current: Duration::from_secs(cur_s),
    };
    let ret = d.after_failed_connect();
    assert!(ret == Duration::from_secs(cur_s), "[C14] the delay returned is the current one");
    let want = if cur_s > max_s / 2 { max_s } else { core::cmp::min(cur_s * 2, max_s) };
    assert!(d.current == Duration::from_secs(want), "[C14] next delay is min(2*current, max)");
    kani::cover!(cur_s > u64::MAX / 2, "doubling would overflow u64 seconds");
    kani::cover!(cur_s <= max_s / 2 && cur_s > 0, "plain doubling");
}
