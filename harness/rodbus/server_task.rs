//! Kernels attached to rodbus/src/server/task.rs: authorization mapping (C08) and run-time decode change (C20)
#![allow(unused)]
use super::*;
use crate::server::handler::ReadOnlyAuthorizationHandler;
use crate::types::{AddressRange, BitIterator, Indexed, ReadBitsRange, ReadRegistersRange, RegisterIterator};
use crate::server::{WriteCoils, WriteRegisters};
use crate::verif_support::*;
use std::sync::atomic::{AtomicBool, AtomicU16, AtomicU32, AtomicU8, AtomicUsize, Ordering::Relaxed};

static A_CALLS: AtomicU32 = AtomicU32::new(0);
static A_KIND: AtomicU8 = AtomicU8::new(0);
static A_UNIT: AtomicU8 = AtomicU8::new(0);
static A_START: AtomicU16 = AtomicU16::new(0);
static A_COUNT: AtomicU16 = AtomicU16::new(0);
static A_ROLE_OK: AtomicBool = AtomicBool::new(false);
/// bit k set => policy allows request kind k
static A_POLICY: AtomicU8 = AtomicU8::new(0);

const ROLE: &str = "operator-7";

/// recording policy: one allow/deny bit per request kind; logs the arguments of every callback
struct RecAuth;

impl RecAuth {
    fn log(&self, kind: u8, unit: UnitId, start: u16, count: u16, role: &str) -> Authorization {
        A_CALLS.fetch_add(1, Relaxed);
        A_KIND.store(kind, Relaxed);
        A_UNIT.store(unit.value, Relaxed);
        A_START.store(start, Relaxed);
        A_COUNT.store(count, Relaxed);
        let rb = role.as_bytes();
        let eb = ROLE.as_bytes();
        let mut same = rb.len() == eb.len();
        let mut i = 0;
        while same && i < eb.len() {
            if rb[i] != eb[i] {
                same = false;
            }
            i += 1;
        }
        A_ROLE_OK.store(same, Relaxed);
        if (A_POLICY.load(Relaxed) >> kind) & 1 == 1 {
            Authorization::Allow
        } else {
            Authorization::Deny
        }
    }
}

impl AuthorizationHandler for RecAuth {
    fn read_coils(&self, u: UnitId, r: AddressRange, role: &str) -> Authorization {
        self.log(0, u, r.start, r.count, role)
    }
    fn read_discrete_inputs(&self, u: UnitId, r: AddressRange, role: &str) -> Authorization {
        self.log(1, u, r.start, r.count, role)
    }
    fn read_holding_registers(&self, u: UnitId, r: AddressRange, role: &str) -> Authorization {
        self.log(2, u, r.start, r.count, role)
    }
    fn read_input_registers(&self, u: UnitId, r: AddressRange, role: &str) -> Authorization {
        self.log(3, u, r.start, r.count, role)
    }
    fn write_single_coil(&self, u: UnitId, idx: u16, role: &str) -> Authorization {
        self.log(4, u, idx, 1, role)
    }
    fn write_single_register(&self, u: UnitId, idx: u16, role: &str) -> Authorization {
        self.log(5, u, idx, 1, role)
    }
    fn write_multiple_coils(&self, u: UnitId, r: AddressRange, role: &str) -> Authorization {
        self.log(6, u, r.start, r.count, role)
    }
    fn write_multiple_registers(&self, u: UnitId, r: AddressRange, role: &str) -> Authorization {
        self.log(7, u, r.start, r.count, role)
    }
}

/// run `k` with a request of kind `kind` (constant discriminant at each call site) over arbitrary fields
fn with_request(kind: u8, a: u16, b: u16, v: u16, data: &[u8; 4], k: impl FnOnce(&Request)) {
    let range = AddressRange { start: a, count: b };
    match kind {
        0 => k(&Request::ReadCoils(ReadBitsRange { inner: range })),
        1 => k(&Request::ReadDiscreteInputs(ReadBitsRange { inner: range })),
        2 => k(&Request::ReadHoldingRegisters(ReadRegistersRange { inner: range })),
        3 => k(&Request::ReadInputRegisters(ReadRegistersRange { inner: range })),
        4 => k(&Request::WriteSingleCoil(Indexed::new(a, v & 1 == 1))),
        5 => k(&Request::WriteSingleRegister(Indexed::new(a, v))),
        6 => {
            let r = AddressRange { start: a, count: 9 };
            let mut c = ReadCursor::new(&data[..2]);
            if let Ok(it) = BitIterator::parse_all(r, &mut c) {
                k(&Request::WriteMultipleCoils(WriteCoils::new(r, it)))
            }
        }
        _ => {
            let r = AddressRange { start: a, count: 2 };
            let mut c = ReadCursor::new(&data[..4]);
            if let Ok(it) = RegisterIterator::parse_all(r, &mut c) {
                k(&Request::WriteMultipleRegisters(WriteRegisters::new(r, it)))
            }
        }
    }
}

//@ props: C08
//@ timeout: 900
//@ fns: server::task::AuthorizationType::is_authorized, AuthorizationType::check_authorization (all eight arms)
//@ bounds: none on the arguments - all eight request kinds x every unit id x every range/index x all 256 allow/deny policies over kinds; one fixed role string
//@ outside: role extraction from the client certificate (C09: X.509 parsing is outside CBMC's reach); placement of the check inside handle_frame is decided by the glue harnesses (engine `small`)
/// every well-formed request is submitted to the authorization handler exactly once, through the callback of its
/// own kind, with its unit id, its range / index and the session's role; the handler's answer is returned unchanged
#[kani::proof]
#[kani::unwind(12)]
fn c08_authorization_mapping() {
    let kind: u8 = kani::any();
    kani::assume(kind < 8);
    let unit: u8 = kani::any();
    let a: u16 = kani::any();
    let b: u16 = kani::any();
    let v: u16 = kani::any();
    let data: [u8; 4] = kani::any();
    let policy: u8 = kani::any();
    A_POLICY.store(policy, Relaxed);
    let auth = AuthorizationType::Handler(Arc::new(RecAuth), String::from(ROLE));
    let none = AuthorizationType::None;
    let check = |req: &Request| {
        let r0 = none.is_authorized(UnitId::new(unit), req);
        assert!(r0 == Authorization::Allow && A_CALLS.load(Relaxed) == 0, "[C08] without an authorization handler every request is allowed and nothing is consulted");
        let r = auth.is_authorized(UnitId::new(unit), req);
        assert!(A_CALLS.load(Relaxed) == 1, "[C08] the handler is consulted exactly once per request");
        assert!(A_KIND.load(Relaxed) == kind, "[C08] the callback matching the request kind is used");
        assert!(A_UNIT.load(Relaxed) == unit, "[C08] the request's unit id is passed");
        assert!(A_ROLE_OK.load(Relaxed), "[C08] the session's role is passed");
        let (es, ec) = match kind {
            0..=3 => (a, b),
            4 | 5 => (a, 1),
            6 => (a, 9),
            _ => (a, 2),
        };
        assert!(A_START.load(Relaxed) == es && A_COUNT.load(Relaxed) == ec, "[C08] the request's own address range / index is passed");
        let want = if (policy >> kind) & 1 == 1 { Authorization::Allow } else { Authorization::Deny };
        assert!(r == want, "[C08] the handler's decision is returned unchanged");
    };
    // one call site per kind keeps the enum discriminant constant for symex
    match kind {
        0 => with_request(0, a, b, v, &data, check),
        1 => with_request(1, a, b, v, &data, check),
        2 => with_request(2, a, b, v, &data, check),
        3 => with_request(3, a, b, v, &data, check),
        4 => with_request(4, a, b, v, &data, check),
        5 => with_request(5, a, b, v, &data, check),
        6 => with_request(6, a, b, v, &data, check),
        _ => with_request(7, a, b, v, &data, check),
    }
    kani::cover!(A_CALLS.load(Relaxed) == 1 && kind == 5 && a != v, "write single register with index != value");
    kani::cover!(A_CALLS.load(Relaxed) == 1 && kind == 6, "write multiple coils");
    std::mem::forget(auth);
}

//@ props: C08
//@ fns: server::handler::<ReadOnlyAuthorizationHandler as AuthorizationHandler>::* (all eight methods), ReadOnlyAuthorizationHandler::create
//@ bounds: none - every unit id, range, index; arbitrary short role
/// the built-in read-only policy allows every read and denies every write
#[kani::proof]
#[kani::unwind(6)]
fn c08_read_only_policy() {
    let h = ReadOnlyAuthorizationHandler;
    let u = UnitId::new(kani::any());
    let r = AddressRange { start: kani::any(), count: kani::any() };
    let idx: u16 = kani::any();
    let role = if kani::any() { "" } else { "viewer" };
    assert!(h.read_coils(u, r, role) == Authorization::Allow, "[C08] read-only policy allows reads");
    assert!(h.read_discrete_inputs(u, r, role) == Authorization::Allow, "[C08] read-only policy allows reads");
    assert!(h.read_holding_registers(u, r, role) == Authorization::Allow, "[C08] read-only policy allows reads");
    assert!(h.read_input_registers(u, r, role) == Authorization::Allow, "[C08] read-only policy allows reads");
    assert!(h.write_single_coil(u, idx, role) == Authorization::Deny, "[C08] read-only policy denies writes");
    assert!(h.write_single_register(u, idx, role) == Authorization::Deny, "[C08] read-only policy denies writes");
    assert!(h.write_multiple_coils(u, r, role) == Authorization::Deny, "[C08] read-only policy denies writes");
    assert!(h.write_multiple_registers(u, r, role) == Authorization::Deny, "[C08] read-only policy denies writes");
    // default-deny of the trait
    struct Nothing;
    impl AuthorizationHandler for Nothing {}
    let n = Nothing;
    assert!(n.read_coils(u, r, role) == Authorization::Deny && n.write_single_coil(u, idx, role) == Authorization::Deny, "[C08] unimplemented callbacks deny");
    kani::cover!(true, "reached");
}

//@ props: C20 C15
//@ timeout: 900
//@ fns: server::task::SessionTask::apply_command, SessionTask::new
//@ bounds: every decode level before and after (36 x 36)
/// a run-time decode change on a server session changes nothing but the level; Shutdown ends the session
#[kani::proof]
#[kani::unwind(6)]
fn c20_server_apply_command() {
    struct NoHandler;
    impl RequestHandler for NoHandler {}
    let before = any_decode_level();
    let after = any_decode_level();
    let (ctx, rx) = tokio::sync::mpsc::channel::<ServerCommand>(1);
    let map = ServerHandlerMap::<NoHandler>::new();
    let mut s = SessionTask::new(map, AuthorizationType::None, FrameWriter::tcp(), FramedReader::tcp(), rx, before);
    let r = s.apply_command(ServerCommand::ChangeDecoding(after));
    assert!(r.is_ok(), "[C20] changing the level never ends or interrupts the session");
    assert!(s.decode == after, "[C20] the new level takes effect");
    assert!(matches!(s.auth, AuthorizationType::None), "[C20] nothing else changes");
    let r2 = s.apply_command(ServerCommand::Shutdown);
    assert!(r2 == Err(Shutdown), "[C15] a Shutdown command ends the session");
    assert!(s.decode == after);
    kani::cover!(before != after, "level actually changed");
    std::mem::forget(s);
    std::mem::forget(ctx);
}
