//! Harnesses attached to rodbus/src/tcp/server.rs (SessionTracker)
//! ATTEMPTED AND INTRACTABLE: both queries exceeded 30 min (BTreeMap<u128, mpsc::Sender>: node handling + tokio channel
//! internals; a 2-connection variant ran out of memory). Unregistered (`props: ZZ`); C15 is listed as not_applicable.
#![allow(unused)]
use super::*;

type Rx = tokio::sync::mpsc::Receiver<ServerCommand>;

fn tracker_adds<const K: usize>() {
    let max: usize = kani::any();
    kani::assume(max <= 3);
    let limit = if max == 0 { 1 } else { max };
    let mut t = SessionTracker::new(max);
    assert!(t.max_sessions == limit, "[C15] max_sessions 0 is treated as 1");
    let mut rxs: [Option<Rx>; K] = [const { None }; K];
    let mut i = 0;
    while i < K {
        let (tx, rx) = tokio::sync::mpsc::channel::<ServerCommand>(1);
        let before = t.sessions.len();
        let oldest = t.sessions.keys().next().copied();
        let id = t.add(tx);
        rxs[i] = Some(rx);
        assert!(id == i as u128, "[C15] session ids are assigned in increasing order");
        assert!(t.sessions.len() <= limit, "[C15] never more than max_sessions concurrent sessions");
        assert!(t.sessions.contains_key(&id), "[C15] the new connection is accepted");
        if before >= limit {
            let o = oldest.unwrap();
            assert!(!t.sessions.contains_key(&o), "[C15] at the limit the oldest session is evicted");
            assert!(t.sessions.len() == limit, "[C15] exactly one session is evicted");
            // the evicted session's command channel is closed => its task ends (run_one returns Shutdown)
            let orx = rxs[o as usize].as_ref().unwrap();
            assert!(orx.is_closed(), "[C15] the evicted session's channel is closed");
        } else {
            assert!(t.sessions.len() == before + 1, "[C15] below the limit nothing is evicted");
        }
        // all live sessions still have an open channel
        if let Some((k, _)) = t.sessions.iter().next() {
            assert!(!rxs[*k as usize].as_ref().unwrap().is_closed(), "[C15] live sessions keep their channel");
        }
        i += 1;
    }
    kani::cover!(max == 0, "max_sessions = 0");
    kani::cover!(max == 3, "max_sessions = 3");
    kani::cover!(t.sessions.len() == 2 && K > 2, "eviction happened with limit 2");
    std::mem::forget(t);
    std::mem::forget(rxs);
}

//@ props: ZZ
//@ timeout: 900
//@ fns: tcp::server::SessionTracker::new, SessionTracker::add, SessionTracker::get_next_id
//@ bounds: max_sessions in 0..=3 (symbolic), 3 consecutive connections
//@ outside: isolation between sessions, shutdown closing sockets, the accept loop (tokio tasks + TCP)
#[kani::proof]
#[kani::unwind(6)]
fn c15_tracker_adds_q() {
    tracker_adds::<3>();
}


//@ props: ZZ
//@ timeout: 900
//@ fns: tcp::server::SessionTracker::add, SessionTracker::remove
//@ bounds: max_sessions in 1..=3 (symbolic); 2 connections, removal of a symbolic id (present or absent), 2 more connections
#[kani::proof]
#[kani::unwind(6)]
fn c15_tracker_remove_then_add() {
    let max: usize = kani::any();
    kani::assume(max >= 1 && max <= 3);
    let mut t = SessionTracker::new(max);
    let (tx0, rx0) = tokio::sync::mpsc::channel::<ServerCommand>(1);
    let (tx1, rx1) = tokio::sync::mpsc::channel::<ServerCommand>(1);
    let (tx2, rx2) = tokio::sync::mpsc::channel::<ServerCommand>(1);
    let a = t.add(tx0);
    let b = t.add(tx1);
    let had1 = t.sessions.len();
    let victim: u128 = kani::any();
    kani::assume(victim <= 2);
    let present = t.sessions.contains_key(&victim);
    t.remove(victim);
    assert!(!t.sessions.contains_key(&victim), "[C15] a closed session is forgotten");
    assert!(t.sessions.len() == had1 - (present as usize), "[C15] removal affects only the named session");
    let before = t.sessions.len();
    let c = t.add(tx2);
    assert!(c == 2, "[C15] ids keep increasing after a removal (never reused)");
    assert!(t.sessions.len() <= max);
    if before < max {
        assert!(t.sessions.len() == before + 1, "[C15] a freed slot is reused without eviction");
    }
    kani::cover!(present && before < max, "slot freed then reused");
    kani::cover!(!present, "removal of an unknown id");
    std::mem::forget(t);
    std::mem::forget((rx0, rx1, rx2));
}
