//! Harnesses attached to rodbus/src/common/frame.rs (child module: private items are reachable)
#![allow(unused)]
use super::*;

//@ props: C11
//@ fns: common::frame::TxId::next, TxId::new, TxId::to_u16
//@ bounds: none needed - all 2^16 states, one inductive step (covers any number of requests incl. the wrap)
//@ outside: the receive loop that discards stale ids (execute_request: select! + timer, not executable by Kani)
/// C11: `TxId::next` from an ARBITRARY state returns the old value and advances by one modulo 2^16.
/// Inductive single step => holds for any number of requests, across the wrap.
#[kani::proof]
fn c11_txid_next_step() {
    let s: u16 = kani::any();
    let mut id = TxId::new(s);
    let a = id.next();
    assert!(a.to_u16() == s, "next() returns the current value");
    assert!(id.to_u16() == s.wrapping_add(1), "state advances by one, wrapping after 65535");
    let b = id.next();
    assert!(a != b, "consecutive requests never share a transaction id");
    assert!(b.to_u16() == s.wrapping_add(1));
    kani::cover!(s == u16::MAX, "wrap point reached");
    kani::cover!(s == 0, "initial value reached");
}

//@ props: C11
//@ fns: common::frame::TxId::default, TxId::next
//@ bounds: concrete initial state
/// C11: the default (initial) id is 0
#[kani::proof]
fn c11_txid_default() {
    let mut id = TxId::default();
    assert!(id.next().to_u16() == 0);
    assert!(id.next().to_u16() == 1);
    kani::cover!(true, "reached");
}

/// a `FrameWriter` whose buffer holds arbitrary residue of earlier traffic: one step from an ARBITRARY
/// writer state => replies cannot depend on what was sent before (sequences of any length)
pub(crate) fn any_writer(rtu: bool) -> FrameWriter {
    FrameWriter {
        format_type: if rtu { FormatType::Rtu } else { FormatType::Tcp },
        buffer: kani::any(),
    }
}
