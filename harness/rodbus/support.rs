//! Shared helpers for the harness modules (attached to rodbus/src/lib.rs as `crate::verif_support`)
#![allow(unused)]
use std::future::Future;
use std::pin::pin;
use std::task::{Context, Poll, Waker};

pub(crate) use crate::common::phys::{PhysLayer, VerifIo};
pub(crate) use crate::decode::{AppDecodeLevel, DecodeLevel, FrameDecodeLevel, PhysDecodeLevel};

/// Poll a future that can never pend (the in-memory transport is always ready).
pub(crate) fn block_on<F: Future>(f: F) -> F::Output {
    let mut f = pin!(f);
    let mut cx = Context::from_waker(Waker::noop());
    match f.as_mut().poll(&mut cx) {
        Poll::Ready(x) => x,
        Poll::Pending => panic!("verif: future pended although the transport never pends"),
    }
}

/// any of the 4 x 3 x 3 decode levels
pub(crate) fn any_decode_level() -> DecodeLevel {
    let a: u8 = kani::any();
    let f: u8 = kani::any();
    let p: u8 = kani::any();
    kani::assume(a < 4 && f < 3 && p < 3);
    DecodeLevel {
        app: match a {
            0 => AppDecodeLevel::Nothing,
            1 => AppDecodeLevel::FunctionCode,
            2 => AppDecodeLevel::DataHeaders,
            _ => AppDecodeLevel::DataValues,
        },
        frame: match f {
            0 => FrameDecodeLevel::Nothing,
            1 => FrameDecodeLevel::Header,
            _ => FrameDecodeLevel::Payload,
        },
        physical: match p {
            0 => PhysDecodeLevel::Nothing,
            1 => PhysDecodeLevel::Length,
            _ => PhysDecodeLevel::Data,
        },
    }
}

/// bit-wise reference CRC-16/MODBUS (reflected poly 0xA001, init 0xFFFF, no final xor)
pub(crate) fn ref_crc_step(mut crc: u16, byte: u8) -> u16 {
    crc ^= byte as u16;
    let mut i = 0;
    while i < 8 {
        if crc & 1 != 0 {
            crc = (crc >> 1) ^ 0xA001;
        } else {
            crc >>= 1;
        }
        i += 1;
    }
    crc
}

/// The harness's own table-driven CRC-16/MODBUS instance (NOT rodbus's constant), advanced by one byte.
/// `c06_crc_step_lemma` proves this equal to the bit-wise `ref_crc_step` for all 2^24 (state, byte) pairs, so
/// frame harnesses may fold it instead of asking the solver to re-prove table-vs-bitwise equivalence over
/// several symbolic bytes (which exhausted 24 GB).
pub(crate) const VERIF_CRC: crc::Crc<u16> = crc::Crc::<u16>::new(&crc::CRC_16_MODBUS);

pub(crate) fn tab_crc_step(state: u16, byte: u8) -> u16 {
    // digest_with_initial applies the algorithm's input reflection to the initial value; undo it
    let mut d = VERIF_CRC.digest_with_initial(state.reverse_bits());
    d.update(&[byte]);
    d.finalize()
}

pub(crate) fn ref_crc(bytes: &[u8]) -> u16 {
    let mut crc = 0xFFFFu16;
    let mut i = 0;
    while i < bytes.len() {
        crc = ref_crc_step(crc, bytes[i]);
        i += 1;
    }
    crc
}

// ---------------------------------------------------------------------------------------------
// Application handler model shared by the server kernels and the session glue harnesses

use crate::exception::ExceptionCode;
use crate::server::{RequestHandler, WriteCoils, WriteRegisters};
use crate::types::Indexed;
use std::cell::Cell;

/// the symbolic "application state" the reference server and the real handler both read
#[derive(Clone, Copy)]
pub(crate) struct Tables {
    pub(crate) coil_bits: u16,
    pub(crate) di_bits: u16,
    pub(crate) hregs: [u16; 4],
    pub(crate) iregs: [u16; 4],
    /// reads of this address raise `ex_code`
    pub(crate) ex_addr: Option<u16>,
    pub(crate) ex_code: ExceptionCode,
    /// result of every write callback
    pub(crate) write_result: Result<(), ExceptionCode>,
}

pub(crate) fn any_exception() -> ExceptionCode {
    let raw: u8 = kani::any();
    ExceptionCode::from(raw)
}

impl Tables {
    pub(crate) fn any() -> Self {
        Tables {
            coil_bits: kani::any(),
            di_bits: kani::any(),
            hregs: kani::any(),
            iregs: kani::any(),
            ex_addr: if kani::any() { Some(kani::any()) } else { None },
            ex_code: any_exception(),
            write_result: if kani::any() { Ok(()) } else { Err(any_exception()) },
        }
    }
    pub(crate) fn coil(&self, a: u16) -> bool {
        (self.coil_bits >> (a & 15)) & 1 == 1
    }
    pub(crate) fn di(&self, a: u16) -> bool {
        (self.di_bits >> (a & 15)) & 1 == 1
    }
    pub(crate) fn hreg(&self, a: u16) -> u16 {
        self.hregs[(a & 3) as usize]
    }
    pub(crate) fn ireg(&self, a: u16) -> u16 {
        self.iregs[(a & 3) as usize]
    }
}

/// instrumented handler: answers from `Tables`, logs every invocation
pub(crate) struct VH {
    pub(crate) t: Tables,
    // read log
    pub(crate) reads: Cell<u32>,
    pub(crate) read_kinds: Cell<u8>,
    pub(crate) first_read: Cell<u16>,
    pub(crate) last_read: Cell<u16>,
    pub(crate) reads_in_order: Cell<bool>,
    // write log
    pub(crate) writes: u32,
    pub(crate) write_kind: u8,
    pub(crate) w_start: u16,
    pub(crate) w_count: u16,
    pub(crate) w_value: u16,
    pub(crate) w_items: u32,
    pub(crate) w_seq_ok: bool,
    /// which item of a multiple write to record (chosen by the harness, usually symbolic)
    pub(crate) probe: u16,
    pub(crate) probe_index: u16,
    pub(crate) probe_value: u16,
    pub(crate) probe_hit: bool,
}

impl VH {
    pub(crate) fn new(t: Tables, probe: u16) -> Self {
        VH {
            t,
            reads: Cell::new(0),
            read_kinds: Cell::new(0),
            first_read: Cell::new(0),
            last_read: Cell::new(0),
            reads_in_order: Cell::new(true),
            writes: 0,
            write_kind: 0,
            w_start: 0,
            w_count: 0,
            w_value: 0,
            w_items: 0,
            w_seq_ok: true,
            probe,
            probe_index: 0,
            probe_value: 0,
            probe_hit: false,
        }
    }
    pub(crate) fn calls(&self) -> u32 {
        self.reads.get() + self.writes
    }
    fn log_read(&self, kind: u8, a: u16) {
        let n = self.reads.get();
        if n == 0 {
            self.first_read.set(a);
        } else if a != self.last_read.get().wrapping_add(1) {
            self.reads_in_order.set(false);
        }
        self.last_read.set(a);
        self.reads.set(n + 1);
        self.read_kinds.set(self.read_kinds.get() | kind);
    }
    fn raise(&self, a: u16) -> Option<ExceptionCode> {
        match self.t.ex_addr {
            Some(x) if x == a => Some(self.t.ex_code),
            _ => None,
        }
    }
}

impl RequestHandler for VH {
    fn read_coil(&self, a: u16) -> Result<bool, ExceptionCode> {
        self.log_read(1, a);
        match self.raise(a) {
            Some(e) => Err(e),
            None => Ok(self.t.coil(a)),
        }
    }
    fn read_discrete_input(&self, a: u16) -> Result<bool, ExceptionCode> {
        self.log_read(2, a);
        match self.raise(a) {
            Some(e) => Err(e),
            None => Ok(self.t.di(a)),
        }
    }
    fn read_holding_register(&self, a: u16) -> Result<u16, ExceptionCode> {
        self.log_read(4, a);
        match self.raise(a) {
            Some(e) => Err(e),
            None => Ok(self.t.hreg(a)),
        }
    }
    fn read_input_register(&self, a: u16) -> Result<u16, ExceptionCode> {
        self.log_read(8, a);
        match self.raise(a) {
            Some(e) => Err(e),
            None => Ok(self.t.ireg(a)),
        }
    }
    fn write_single_coil(&mut self, v: Indexed<bool>) -> Result<(), ExceptionCode> {
        self.writes += 1;
        self.write_kind |= 1;
        self.w_start = v.index;
        self.w_count = 1;
        self.w_value = v.value as u16;
        self.t.write_result
    }
    fn write_single_register(&mut self, v: Indexed<u16>) -> Result<(), ExceptionCode> {
        self.writes += 1;
        self.write_kind |= 2;
        self.w_start = v.index;
        self.w_count = 1;
        self.w_value = v.value;
        self.t.write_result
    }
    fn write_multiple_coils(&mut self, v: WriteCoils) -> Result<(), ExceptionCode> {
        self.writes += 1;
        self.write_kind |= 4;
        self.w_start = v.range.start;
        self.w_count = v.range.count;
        let mut k: u16 = 0;
        for item in v.iterator {
            if item.index != v.range.start.wrapping_add(k) {
                self.w_seq_ok = false;
            }
            if k == self.probe {
                self.probe_hit = true;
                self.probe_index = item.index;
                self.probe_value = item.value as u16;
            }
            k = k.wrapping_add(1);
            self.w_items += 1;
        }
        self.t.write_result
    }
    fn write_multiple_registers(&mut self, v: WriteRegisters) -> Result<(), ExceptionCode> {
        self.writes += 1;
        self.write_kind |= 8;
        self.w_start = v.range.start;
        self.w_count = v.range.count;
        let mut k: u16 = 0;
        for item in v.iterator {
            if item.index != v.range.start.wrapping_add(k) {
                self.w_seq_ok = false;
            }
            if k == self.probe {
                self.probe_hit = true;
                self.probe_index = item.index;
                self.probe_value = item.value;
            }
            k = k.wrapping_add(1);
            self.w_items += 1;
        }
        self.t.write_result
    }
}

// ---------------------------------------------------------------------------------------------
// Reference Modbus server (written from the Modbus Application Protocol V1.1b3, not from rodbus)

pub(crate) fn be16(hi: u8, lo: u8) -> u16 {
    ((hi as u16) << 8) | lo as u16
}

#[derive(Clone, Copy, PartialEq)]
pub(crate) enum RefReq {
    /// function code not supported: exception 01 on fc|0x80
    Unknown,
    /// syntactically invalid or beyond the quantity limits: exception 03
    Invalid,
    ReadBits { start: u16, count: u16 },
    ReadRegs { start: u16, count: u16 },
    WriteCoil { index: u16, on: bool },
    WriteReg { index: u16, value: u16 },
    /// data bytes start at payload offset 5
    WriteCoils { start: u16, count: u16 },
    WriteRegs { start: u16, count: u16 },
}

fn range_ok(start: u16, count: u16, limit: u16) -> bool {
    count >= 1 && count <= limit && (start as u32) + (count as u32) <= 65536
}

/// classify a request PDU = [fc] ++ payload.
/// The byte-count field of the write-multiple requests is a don't-care when the payload length is the
/// one implied by the quantity (property C01 lists "wrong length for its quantity", not the field).
pub(crate) fn ref_classify(fc: u8, p: &[u8]) -> RefReq {
    let n = p.len();
    match fc {
        1 | 2 | 3 | 4 => {
            if n != 4 {
                return RefReq::Invalid;
            }
            let start = be16(p[0], p[1]);
            let count = be16(p[2], p[3]);
            let limit = if fc <= 2 { 2000 } else { 125 };
            if !range_ok(start, count, limit) {
                return RefReq::Invalid;
            }
            if fc <= 2 {
                RefReq::ReadBits { start, count }
            } else {
                RefReq::ReadRegs { start, count }
            }
        }
        5 => {
            if n != 4 {
                return RefReq::Invalid;
            }
            let v = be16(p[2], p[3]);
            if v != 0xFF00 && v != 0x0000 {
                return RefReq::Invalid;
            }
            RefReq::WriteCoil { index: be16(p[0], p[1]), on: v == 0xFF00 }
        }
        6 => {
            if n != 4 {
                return RefReq::Invalid;
            }
            RefReq::WriteReg { index: be16(p[0], p[1]), value: be16(p[2], p[3]) }
        }
        15 | 16 => {
            if n < 5 {
                return RefReq::Invalid;
            }
            let start = be16(p[0], p[1]);
            let count = be16(p[2], p[3]);
            let limit = if fc == 15 { 1968 } else { 123 };
            if !range_ok(start, count, limit) {
                return RefReq::Invalid;
            }
            let data = if fc == 15 { (count as usize + 7) / 8 } else { 2 * count as usize };
            if n != 5 + data {
                return RefReq::Invalid;
            }
            if fc == 15 {
                RefReq::WriteCoils { start, count }
            } else {
                RefReq::WriteRegs { start, count }
            }
        }
        _ => RefReq::Unknown,
    }
}

/// number of handler reads the reference server performs for a read of [start, start+count):
/// in address order, stopping at the first address that raises
pub(crate) fn ref_reads(t: &Tables, start: u16, count: u16) -> (u32, Option<ExceptionCode>) {
    match t.ex_addr {
        Some(x) if x >= start && (x - start) < count => ((x - start) as u32 + 1, Some(t.ex_code)),
        _ => (count as u32, None),
    }
}
