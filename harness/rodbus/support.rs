//! Shared helpers for the harness modules (attached to rodbus/src/lib.rs as `crate::verif_support`)
#![allow(unused)]
use std::future::Future;
use std::pin::pin;
use std::task::{Context, Poll, Waker};

pub(crate) use crate::common::phys::{PhysLayer, VerifIo};
pub(crate) use crate::decode::{AppDecodeLevel, DecodeLevel, FrameDecodeLevel, PhysDecodeLevel};

/// Poll a future that can never pend (the in-memory transport is always ready).
pub(crate) fn block_on<F: Future>(f: F) -> F::Output {
    let mut f = pin!(f);
    let mut cx = Context::from_waker(Waker::noop());
    match f.as_mut().poll(&mut cx) {
        Poll::Ready(x) => x,
        Poll::Pending => panic!("verif: future pended although the transport never pends"),
    }
}

/// any of the 4 x 3 x 3 decode levels
pub(crate) fn any_decode_level() -> DecodeLevel {
    let a: u8 = kani::any();
    let f: u8 = kani::any();
    let p: u8 = kani::any();
    kani::assume(a < 4 && f < 3 && p < 3);
    DecodeLevel {
        app: match a {
            0 => AppDecodeLevel::Nothing,
            1 => AppDecodeLevel::FunctionCode,
            2 => AppDecodeLevel::DataHeaders,
            _ => AppDecodeLevel::DataValues,
        },
        frame: match f {
            0 => FrameDecodeLevel::Nothing,
            1 => FrameDecodeLevel::Header,
            _ => FrameDecodeLevel::Payload,
        },
        physical: match p {
            0 => PhysDecodeLevel::Nothing,
            1 => PhysDecodeLevel::Length,
            _ => PhysDecodeLevel::Data,
        },
    }
}

/// bit-wise reference CRC-16/MODBUS (reflected poly 0xA001, init 0xFFFF, no final xor)
pub(crate) fn ref_crc_step(mut crc: u16, byte: u8) -> u16 {
    crc ^= byte as u16;
    let mut i = 0;
    while i < 8 {
        if crc & 1 != 0 {
            crc = (crc >> 1) ^ 0xA001;
        } else {
            crc >>= 1;
        }
        i += 1;
    }
    crc
}

pub(crate) fn ref_crc(bytes: &[u8]) -> u16 {
    let mut crc = 0xFFFFu16;
    let mut i = 0;
    while i < bytes.len() {
        crc = ref_crc_step(crc, bytes[i]);
        i += 1;
    }
    crc
}
