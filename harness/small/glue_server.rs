//! Session glue: the REAL `SessionTask::handle_frame` (parse -> authorize -> unit lookup -> handler -> reply -> write)
//! executed whole over the in-memory transport. Engine `small`: the crate is compiled with
//! `--cfg verif_small_frames` (MAX_ADU_LENGTH = 13) because the coroutine lowering of `handle_frame` with
//! 253/260-byte arrays exceeds 24 GB even for a concrete one-byte frame. Every harness fixes the function code
//! (a symbolic function code makes symex explore all eight parse/reply arms).
#![allow(unused)]
use super::*;
use crate::common::frame::TxId;
use crate::types::{AddressRange, Indexed};
use crate::verif_support::*;
use std::sync::atomic::{AtomicU32, AtomicU8, Ordering::Relaxed};
use std::sync::Mutex;

type Shared = Arc<Mutex<Box<VH>>>;

fn session(map: ServerHandlerMap<VH>, auth: AuthorizationType, rtu: bool, level: DecodeLevel) -> (SessionTask<VH>, tokio::sync::mpsc::Sender<ServerCommand>) {
    let (ctx, rx) = tokio::sync::mpsc::channel(1);
    let (w, r) = if rtu { (FrameWriter::rtu(), FramedReader::rtu_request()) } else { (FrameWriter::tcp(), FramedReader::tcp()) };
    (SessionTask::new(map, auth, w, r, rx, level), ctx)
}

fn frame_of(rtu: bool, unit: u8, tx: u16, pdu: &[u8]) -> Frame {
    let header = if rtu {
        FrameHeader::new_rtu_header(if unit == 0 { FrameDestination::Broadcast } else { FrameDestination::UnitId(UnitId::new(unit)) })
    } else {
        FrameHeader::new_tcp_header(UnitId::new(unit), TxId::new(tx))
    };
    let mut f = Frame::new(header);
    f.set(pdu);
    f
}

/// (calls, writes, w_start, w_value, w_kind) of a handler
fn log_of(h: &Shared) -> (u32, u32, u16, u16, u8) {
    match h.lock() {
        Ok(g) => (g.calls(), g.writes, g.w_start, g.w_value, g.write_kind),
        Err(_) => (u32::MAX, 0, 0, 0, 0),
    }
}

const UNIT: u8 = 17;

/// expected MBAP reply prefix check
fn check_mbap(v: &VerifIo, tx: u16, unit: u8, pdu: &[u8]) {
    assert!(v.writes == 1, "[C01] exactly one reply per request addressed to a configured unit");
    assert!(v.out_len == 7 + pdu.len(), "[C01] reply length");
    assert!(v.out[0] == (tx >> 8) as u8 && v.out[1] == tx as u8, "[C01] reply echoes the transaction id");
    assert!(v.out[2] == 0 && v.out[3] == 0 && v.out[4] == 0 && v.out[5] == (pdu.len() + 1) as u8, "[C01] protocol id and length");
    assert!(v.out[6] == unit, "[C01] reply echoes the unit id");
    let mut i = 0;
    while i < pdu.len() {
        assert!(v.out[7 + i] == pdu[i], "[C01] reply PDU");
        i += 1;
    }
}

//@ props: C17 C01~ C02~
//@ peer: yes
//@ timeout: 1500
//@ fns: server::task::SessionTask::handle_frame (whole), server::request::Request::parse, Request::get_reply, server::handler::ServerHandlerMap::get, common::frame::FrameWriter::format_reply, common::phys::PhysLayer::write
//@ bounds: MBAP, write single register (fc 6) with every index/value, EVERY unit id 0..=255 against a map holding unit 17, every transaction id, every handler result, decode level nothing (the kernels carry the symbolic level); MAX_ADU_LENGTH = 13 (hook H3)
//@ stubs: transport = VerifIo; short frames (hook H3)
/// a valid write addressed to the configured unit is executed once and echoed; addressed to any other unit it
/// has no effect and NOTHING is written
#[kani::proof]
#[kani::unwind(14)]
fn c17_glue_write_register_unit_filter() {
    let t = Tables::any();
    let h: Shared = VH::new(t, 0).wrap();
    let level = DecodeLevel::nothing();
    let (mut s, ctx) = session(ServerHandlerMap::single(UnitId::new(UNIT), h.clone()), AuthorizationType::None, false, level);
    let mut io = PhysLayer::new_verif(VerifIo::new());
    let unit: u8 = kani::any();
    let tx: u16 = kani::any();
    let b: [u8; 4] = kani::any();
    let res = block_on(s.handle_frame(&mut io, frame_of(false, unit, tx, &[6, b[0], b[1], b[2], b[3]])));
    assert!(res.is_ok(), "[C07] the session continues");
    let (calls, writes, w_start, w_value, w_kind) = log_of(&h);
    let v = io.verif();
    if unit == UNIT {
        assert!(calls == 1 && writes == 1 && w_kind == 2, "[C02] the write handler is invoked exactly once");
        assert!(w_start == be16(b[0], b[1]) && w_value == be16(b[2], b[3]), "[C02] with exactly the address and value sent");
        match t.write_result {
            Ok(()) => check_mbap(v, tx, unit, &[6, b[0], b[1], b[2], b[3]]),
            Err(e) => check_mbap(v, tx, unit, &[0x86, u8::from(e)]),
        }
    } else {
        assert!(calls == 0, "[C02] a request for another unit invokes no handler");
        assert!(v.writes == 0 && v.out_len == 0, "[C17] the server stays silent for every unit id it was not configured with");
    }
    kani::cover!(unit == UNIT && t.write_result.is_ok(), "addressed and executed");
    kani::cover!(unit == UNIT && t.write_result.is_err(), "addressed, handler raised");
    kani::cover!(unit != UNIT, "other unit");
    std::mem::forget((io, s, ctx, h));
}

//@ props: C17 C01~ C02~
//@ tier: thorough
//@ peer: yes
//@ timeout: 3600
//@ fns: server::task::SessionTask::handle_frame, SessionTask::reply_with_error, server::request::Request::parse (error path; measured 944 s)
//@ bounds: MBAP, malformed write-single-coil requests (fc 5): every 4-byte body with an undefined coil value; every unit id against a map holding unit 17
/// a malformed request addressed to the configured unit is answered with exception 03 and reaches no handler;
/// addressed to an unconfigured unit it is not answered at all
#[kani::proof]
#[kani::unwind(14)]
fn c17_glue_malformed_request() {
    let h: Shared = VH::new(Tables::any(), 0).wrap();
    let (mut s, ctx) = session(ServerHandlerMap::single(UnitId::new(UNIT), h.clone()), AuthorizationType::None, false, DecodeLevel::nothing());
    let mut io = PhysLayer::new_verif(VerifIo::new());
    let unit: u8 = kani::any();
    let tx: u16 = kani::any();
    let b: [u8; 4] = kani::any();
    let v16 = be16(b[2], b[3]);
    kani::assume(v16 != 0xFF00 && v16 != 0x0000);
    let len = 4;
    let res = block_on(s.handle_frame(&mut io, frame_of(false, unit, tx, &[5, b[0], b[1], b[2], b[3]])));
    assert!(res.is_ok(), "[C07] the session continues after a malformed request");
    let (calls, ..) = log_of(&h);
    assert!(calls == 0, "[C02] a malformed request never reaches a handler");
    let v = io.verif();
    if unit == UNIT {
        check_mbap(v, tx, unit, &[0x85, 0x03]);
    } else {
        assert!(v.writes == 0, "[C17] a malformed request for an unconfigured unit id is not answered");
    }
    kani::cover!(unit == UNIT, "undefined coil value answered with exception 03");
    kani::cover!(unit != UNIT, "malformed request to another unit");
    std::mem::forget((io, s, ctx, h));
}

fn unknown_function(fc: u8) {
    let h: Shared = VH::new(Tables::any(), 0).wrap();
    let (mut s, ctx) = session(ServerHandlerMap::single(UnitId::new(UNIT), h.clone()), AuthorizationType::None, false, DecodeLevel::nothing());
    let mut io = PhysLayer::new_verif(VerifIo::new());
    let unit: u8 = kani::any();
    let tx: u16 = kani::any();
    let extra: [u8; 2] = kani::any();
    let res = block_on(s.handle_frame(&mut io, frame_of(false, unit, tx, &[fc, extra[0], extra[1]])));
    assert!(res.is_ok(), "[C07] the session continues");
    let (calls, ..) = log_of(&h);
    assert!(calls == 0, "[C02] an unsupported function reaches no handler");
    let v = io.verif();
    if unit == UNIT {
        check_mbap(v, tx, unit, &[fc | 0x80, 0x01]);
    } else {
        assert!(v.writes == 0, "[C17] an unsupported function addressed to an unconfigured unit id is not answered");
    }
    kani::cover!(unit == UNIT, "answered with exception 01");
    kani::cover!(unit != UNIT, "other unit");
    std::mem::forget((io, s, ctx, h));
}

//@ props: C17 C01~ C02~
//@ peer: yes
//@ timeout: 1500
//@ fns: server::task::SessionTask::handle_frame, SessionTask::reply_with_error_generic, common::function::FunctionCode::get
//@ bounds: MBAP, unsupported function code 0x2B (representative; the full table is c01_function_code_table) with 2 arbitrary trailing bytes, every unit id against a map holding unit 17
#[kani::proof]
#[kani::unwind(14)]
fn c17_glue_unknown_function_q() {
    unknown_function(0x2B);
}

//@ props: C17 C01~ C02~
//@ peer: yes
//@ tier: thorough
//@ timeout: 3600
//@ fns: server::task::SessionTask::handle_frame, SessionTask::reply_with_error_generic
//@ bounds: MBAP, unsupported function codes 0x00 and 0xFF with 2 trailing bytes, every unit id
#[kani::proof]
#[kani::unwind(14)]
fn c17_glue_unknown_function_t() {
    if kani::any() {
        unknown_function(0x00);
    } else {
        unknown_function(0xFF);
    }
}

//@ props: C17 C01~ C02~
//@ peer: yes
//@ timeout: 1500
//@ fns: server::task::SessionTask::handle_frame (empty body)
//@ bounds: MBAP and RTU, empty PDU, every unit id
#[kani::proof]
#[kani::unwind(14)]
fn c17_glue_empty_frame() {
    let h: Shared = VH::new(Tables::any(), 0).wrap();
    let rtu: bool = kani::any();
    let (mut s, ctx) = session(ServerHandlerMap::single(UnitId::new(UNIT), h.clone()), AuthorizationType::None, rtu, DecodeLevel::nothing());
    let mut io = PhysLayer::new_verif(VerifIo::new());
    let res = block_on(s.handle_frame(&mut io, frame_of(rtu, kani::any(), kani::any(), &[])));
    assert!(res.is_ok(), "[C07] the session continues");
    let (calls, ..) = log_of(&h);
    assert!(calls == 0 && io.verif().writes == 0, "[C01] a frame with an empty body is not answered and reaches no handler");
    kani::cover!(rtu, "rtu");
    kani::cover!(!rtu, "tcp");
    std::mem::forget((io, s, ctx, h));
}

// ATTEMPTED AND INTRACTABLE (unregistered): broadcast write fan-out to a two-unit map. Measured: out of memory at 36 GB;
// "CBMC failed" after 22 min; after concretising the point tables, alone on the machine: 54.8 GB resident, died after
// 23 min (symex alone 996 s). The fan-out clause of C17 is NOT decided; seeded change C17-1 is missed.
//@ props: ZZ
//@ tier: thorough
//@ peer: yes
//@ timeout: 7200
//@ fns: server::task::SessionTask::handle_frame (broadcast arm), server::request::Request::into_broadcast_request, BroadcastRequest::execute, server::handler::ServerHandlerMap::iter_mut
//@ bounds: RTU, write single register to address 0 (broadcast), map of two units (17 and 42), every index/value, every combination of per-unit handler results (accept / any exception); point tables concrete (not read by the write path)
/// a broadcast write is applied exactly once to EVERY configured unit and is never answered - not even when a
/// handler raises an exception
#[kani::proof]
#[kani::unwind(14)]
fn c17_glue_broadcast_write() {
    // the write path reads nothing of the point tables: they are concrete here. What stays symbolic per unit is the
    // handler's RESULT, so "the first unit rejects, the second must still be written" is inside the space.
    let quiet = Tables { coil_bits: 0, di_bits: 0, hregs: [0; 4], iregs: [0; 4], ex_addr: None, ex_code: ExceptionCode::Acknowledge, write_result: Ok(()) };
    let mut t1 = quiet;
    let mut t2 = quiet;
    t1.write_result = if kani::any() { Ok(()) } else { Err(any_exception()) };
    t2.write_result = if kani::any() { Ok(()) } else { Err(any_exception()) };
    let h1: Shared = VH::new(t1, 0).wrap();
    let h2: Shared = VH::new(t2, 0).wrap();
    let mut map = ServerHandlerMap::single(UnitId::new(UNIT), h1.clone());
    map.add(UnitId::new(42), h2.clone());
    let (mut s, ctx) = session(map, AuthorizationType::None, true, DecodeLevel::nothing());
    let mut io = PhysLayer::new_verif(VerifIo::new());
    let b: [u8; 4] = kani::any();
    let res = block_on(s.handle_frame(&mut io, frame_of(true, 0, 0, &[6, b[0], b[1], b[2], b[3]])));
    assert!(res.is_ok(), "[C07] the session continues");
    let (c1, w1, s1, v1, k1) = log_of(&h1);
    let (c2, w2, s2, v2, k2) = log_of(&h2);
    assert!(c1 == 1 && w1 == 1 && k1 == 2 && c2 == 1 && w2 == 1 && k2 == 2, "[C17] a broadcast write is applied exactly once to every configured unit");
    assert!(s1 == be16(b[0], b[1]) && v1 == be16(b[2], b[3]) && s2 == s1 && v2 == v1, "[C02] with exactly the address and value sent");
    assert!(io.verif().writes == 0 && io.verif().out_len == 0, "[C17] a broadcast is never answered, not even with an exception");
    kani::cover!(t1.write_result.is_err() && t2.write_result.is_ok(), "first unit rejects, second accepts");
    kani::cover!(t1.write_result.is_ok() && t2.write_result.is_ok(), "both accept");
    std::mem::forget((io, s, ctx, h1, h2));
}

//@ props: C17 C02~
//@ peer: yes
//@ timeout: 2400
//@ fns: server::task::SessionTask::handle_frame (broadcast arm, reads and errors), SessionTask::reply_with_error_generic (broadcast guard)
//@ bounds: RTU broadcast: a read-holding-registers request (valid or malformed: any 4-byte body); one configured unit
/// reads addressed to unit 0 are ignored; malformed and unsupported broadcasts are not answered either
#[kani::proof]
#[kani::unwind(14)]
fn c17_glue_broadcast_ignored() {
    let h: Shared = VH::new(Tables::any(), 0).wrap();
    let (mut s, ctx) = session(ServerHandlerMap::single(UnitId::new(UNIT), h.clone()), AuthorizationType::None, true, DecodeLevel::nothing());
    let mut io = PhysLayer::new_verif(VerifIo::new());
    let b: [u8; 4] = kani::any();
    // read: valid or not (count may be 0 / too large / overflowing)
    let res = block_on(s.handle_frame(&mut io, frame_of(true, 0, 0, &[3, b[0], b[1], b[2], b[3]])));
    assert!(res.is_ok(), "[C07] the session continues");
    let (calls, ..) = log_of(&h);
    assert!(calls == 0, "[C17] a read addressed to unit 0 is ignored");
    assert!(io.verif().writes == 0, "[C17] nothing is ever transmitted in response to a broadcast");
    kani::cover!(true, "reached");
    std::mem::forget((io, s, ctx, h));
}

// ---------------------------------------------------------------------------------------------
// C08: authorization placement

static P_ALLOW: AtomicU8 = AtomicU8::new(0);
static P_CALLS: AtomicU32 = AtomicU32::new(0);

struct Policy;
impl AuthorizationHandler for Policy {
    fn write_single_register(&self, _u: UnitId, _idx: u16, _role: &str) -> Authorization {
        P_CALLS.fetch_add(1, Relaxed);
        if P_ALLOW.load(Relaxed) == 1 { Authorization::Allow } else { Authorization::Deny }
    }
    fn read_holding_registers(&self, _u: UnitId, _r: AddressRange, _role: &str) -> Authorization {
        P_CALLS.fetch_add(1, Relaxed);
        if P_ALLOW.load(Relaxed) == 1 { Authorization::Allow } else { Authorization::Deny }
    }
}

//@ props: C08 C02~ C01~
//@ peer: yes
//@ timeout: 2400
//@ fns: server::task::SessionTask::handle_frame (authorization block), AuthorizationType::is_authorized, SessionTask::reply_with_error
//@ bounds: MBAP, write single register with every index/value, policy answer symbolic (allow / deny), configured and unconfigured unit ids, every handler result
/// deny => no point handler is invoked and the client receives exception 01 for that function code;
/// allow => exactly the behaviour without authorization
#[kani::proof]
#[kani::unwind(14)]
fn c08_glue_deny_has_no_effect() {
    let t = Tables::any();
    let h: Shared = VH::new(t, 0).wrap();
    let allow: bool = kani::any();
    P_ALLOW.store(allow as u8, Relaxed);
    let auth = AuthorizationType::Handler(Arc::new(Policy), String::from("role"));
    let (mut s, ctx) = session(ServerHandlerMap::single(UnitId::new(UNIT), h.clone()), auth, false, DecodeLevel::nothing());
    let mut io = PhysLayer::new_verif(VerifIo::new());
    let unit: u8 = kani::any();
    let tx: u16 = kani::any();
    let b: [u8; 4] = kani::any();
    let res = block_on(s.handle_frame(&mut io, frame_of(false, unit, tx, &[6, b[0], b[1], b[2], b[3]])));
    assert!(res.is_ok(), "[C07] the session continues");
    assert!(P_CALLS.load(Relaxed) == 1, "[C08] every well-formed request is submitted to the authorization handler, once");
    let (calls, writes, w_start, w_value, _) = log_of(&h);
    let v = io.verif();
    if !allow {
        assert!(calls == 0, "[C08] a denied request invokes no point handler");
        check_mbap(v, tx, unit, &[0x86, 0x01]);
    } else if unit == UNIT {
        assert!(calls == 1 && writes == 1 && w_start == be16(b[0], b[1]) && w_value == be16(b[2], b[3]), "[C08] an allowed request behaves as without authorization");
        match t.write_result {
            Ok(()) => check_mbap(v, tx, unit, &[6, b[0], b[1], b[2], b[3]]),
            Err(e) => check_mbap(v, tx, unit, &[0x86, u8::from(e)]),
        }
    } else {
        assert!(calls == 0 && v.writes == 0, "[C08] an allowed request for an unconfigured unit is silently dropped, as without authorization");
    }
    kani::cover!(!allow && unit == UNIT, "denied");
    kani::cover!(allow && unit == UNIT, "allowed");
    std::mem::forget((io, s, ctx, h));
}

//@ props: C08
//@ peer: yes
//@ tier: thorough
//@ timeout: 5400
//@ fns: server::task::SessionTask::handle_frame called twice on the same session
//@ bounds: MBAP, two consecutive write-single-register requests on one session: the first allowed, the second denied (and vice versa); same or different unit/index
/// the decision is taken per request: an earlier allow never carries over to a later request
#[kani::proof]
#[kani::unwind(14)]
fn c08_glue_decision_per_request() {
    let h: Shared = VH::new(Tables::any(), 0).wrap();
    let auth = AuthorizationType::Handler(Arc::new(Policy), String::from("role"));
    let (mut s, ctx) = session(ServerHandlerMap::single(UnitId::new(UNIT), h.clone()), auth, false, DecodeLevel::nothing());
    let mut io = PhysLayer::new_verif(VerifIo::new());
    let first_allow: bool = kani::any();
    let b: [u8; 4] = kani::any();
    let same: bool = kani::any();
    P_ALLOW.store(first_allow as u8, Relaxed);
    let r1 = block_on(s.handle_frame(&mut io, frame_of(false, UNIT, 1, &[6, b[0], b[1], b[2], b[3]])));
    let (calls1, ..) = log_of(&h);
    P_ALLOW.store(!first_allow as u8, Relaxed);
    let c: [u8; 4] = if same { b } else { kani::any() };
    let r2 = block_on(s.handle_frame(&mut io, frame_of(false, UNIT, 2, &[6, c[0], c[1], c[2], c[3]])));
    assert!(r1.is_ok() && r2.is_ok());
    assert!(P_CALLS.load(Relaxed) == 2, "[C08] the authorization handler is consulted for every request");
    let (calls2, ..) = log_of(&h);
    assert!(calls1 == first_allow as u32, "[C08] first request follows its own decision");
    assert!(calls2 - calls1 == (!first_allow) as u32, "[C08] an earlier allow (or deny) never carries over to a later request");
    assert!(io.verif().writes == 2, "[C01] one reply per request, in order");
    kani::cover!(first_allow && same, "allow then deny of the identical request");
    std::mem::forget((io, s, ctx, h));
}

//@ props: C01 C02 C17
//@ peer: yes
//@ tier: thorough
//@ timeout: 5400
//@ fns: server::task::SessionTask::handle_frame, server::request::Request::get_reply (read arm), common::serialize::<RegisterWriter as Serialize>::serialize
//@ bounds: MBAP, read holding registers with quantity 1..=2 (and every invalid quantity/range), every unit id against a map holding unit 17, symbolic point table incl. an exception address
#[kani::proof]
#[kani::unwind(14)]
fn c01_glue_read_registers() {
    let t = Tables::any();
    let h: Shared = VH::new(t, 0).wrap();
    let (mut s, ctx) = session(ServerHandlerMap::single(UnitId::new(UNIT), h.clone()), AuthorizationType::None, false, DecodeLevel::nothing());
    let mut io = PhysLayer::new_verif(VerifIo::new());
    let unit: u8 = kani::any();
    let tx: u16 = kani::any();
    let b: [u8; 4] = kani::any();
    let start = be16(b[0], b[1]);
    let count = be16(b[2], b[3]);
    kani::assume(count <= 2 || count > 125);
    let res = block_on(s.handle_frame(&mut io, frame_of(false, unit, tx, &[3, b[0], b[1], b[2], b[3]])));
    assert!(res.is_ok(), "[C07] the session continues");
    let v = io.verif();
    let reads = match h.lock() { Ok(g) => g.reads.get(), Err(_) => u32::MAX };
    let valid = count >= 1 && count <= 125 && (start as u32 + count as u32) <= 65536;
    if unit != UNIT {
        // (unanswered malformed requests for other units are decided by c17_glue_malformed_request)
        assert!(reads == 0, "[C02] another unit's request reads nothing");
        assert!(!valid || v.writes == 0, "[C17] silent for other units");
    } else if !valid {
        assert!(reads == 0, "[C02] an invalid read queries nothing");
        check_mbap(v, tx, unit, &[0x83, 0x03]);
    } else {
        let (n, ex) = ref_reads(&t, start, count);
        assert!(reads == n, "[C02] reads query only addresses inside the requested range, once each");
        match ex {
            Some(e) => check_mbap(v, tx, unit, &[0x83, u8::from(e)]),
            None => {
                let r0 = t.hreg(start);
                if count == 1 {
                    check_mbap(v, tx, unit, &[3, 2, (r0 >> 8) as u8, r0 as u8]);
                } else {
                    let r1 = t.hreg(start + 1);
                    check_mbap(v, tx, unit, &[3, 4, (r0 >> 8) as u8, r0 as u8, (r1 >> 8) as u8, r1 as u8]);
                }
            }
        }
    }
    kani::cover!(unit == UNIT && valid && count == 2, "two registers returned");
    kani::cover!(unit == UNIT && !valid, "invalid read answered with exception 03");
    std::mem::forget((io, s, ctx, h));
}
