//! Glue harnesses attached to rodbus/src/server/task.rs (engine `small`: MAX_ADU_LENGTH = 13)
#![allow(unused)]
use super::*;
use crate::common::frame::TxId;
use crate::verif_support::*;

struct H {
    calls: u32,
}
impl RequestHandler for H {
    fn write_single_register(&mut self, v: crate::types::Indexed<u16>) -> Result<(), ExceptionCode> {
        self.calls += 1;
        Ok(())
    }
}

fn mk_session(handler: std::sync::Arc<std::sync::Mutex<Box<H>>>, rx: tokio::sync::mpsc::Receiver<ServerCommand>) -> SessionTask<H> {
    let map = ServerHandlerMap::single(UnitId::new(1), handler);
    SessionTask::new(map, AuthorizationType::None, FrameWriter::tcp(), FramedReader::tcp(), rx, DecodeLevel::nothing())
}

//@ props: C17
//@ timeout: 600
#[kani::proof]
#[kani::unwind(12)]
fn zz_h1_handle_concrete() {
    let handler = H { calls: 0 }.wrap();
    let (ctx, rx) = tokio::sync::mpsc::channel(1);
    let mut session = mk_session(handler.clone(), rx);
    let mut io = PhysLayer::new_verif(VerifIo::new());
    let mut frame = Frame::new(FrameHeader::new_tcp_header(UnitId::new(1), TxId::new(5)));
    frame.set(&[0x55]);
    let res = block_on(session.handle_frame(&mut io, frame));
    assert!(res.is_ok());
    let v = io.verif();
    assert!(v.writes == 1);
    assert!(v.out_len == 9);
    kani::cover!(true, "end reached");
    std::mem::forget(io);
    std::mem::forget(session);
    std::mem::forget(ctx);
    std::mem::forget(handler);
}

//@ props: C17
//@ timeout: 600
#[kani::proof]
#[kani::unwind(12)]
fn zz_e3_reply_err() {
    let handler = H { calls: 0 }.wrap();
    let (ctx, rx) = tokio::sync::mpsc::channel(1);
    let mut session = mk_session(handler.clone(), rx);
    let mut io = PhysLayer::new_verif(VerifIo::new());
    let fc: u8 = kani::any();
    let tx: u16 = kani::any();
    let hdr = FrameHeader::new_tcp_header(UnitId::new(3), TxId::new(tx));
    let res = block_on(session.reply_with_error_generic(&mut io, hdr, FunctionField::unknown(fc), ExceptionCode::IllegalFunction));
    assert!(res.is_ok());
    assert!(io.verif().out_len == 9);
    kani::cover!(true, "end reached");
    std::mem::forget(io);
    std::mem::forget(session);
    std::mem::forget(ctx);
    std::mem::forget(handler);
}

//@ props: C17
//@ timeout: 1500
#[kani::proof]
#[kani::unwind(12)]
fn zz_g_unknown_sym() {
    let handler = H { calls: 0 }.wrap();
    let (ctx, rx) = tokio::sync::mpsc::channel(1);
    let mut session = mk_session(handler.clone(), rx);
    let mut io = PhysLayer::new_verif(VerifIo::new());
    let unit: u8 = kani::any();
    let tx: u16 = kani::any();
    let fc: u8 = kani::any();
    kani::assume(FunctionCode::get(fc).is_none());
    let mut frame = Frame::new(FrameHeader::new_tcp_header(UnitId::new(unit), TxId::new(tx)));
    frame.set(&[fc]);
    let res = block_on(session.handle_frame(&mut io, frame));
    assert!(res.is_ok());
    let v = io.verif();
    assert!(v.writes == 1);
    assert!(v.out_len == 9);
    assert!(v.out[7] == fc | 0x80 && v.out[8] == 1);
    kani::cover!(true, "end reached");
    std::mem::forget(io);
    std::mem::forget(session);
    std::mem::forget(ctx);
    std::mem::forget(handler);
}

//@ props: C17
//@ timeout: 1500
#[kani::proof]
#[kani::unwind(12)]
fn zz_g_wsr_sym() {
    let handler = H { calls: 0 }.wrap();
    let (ctx, rx) = tokio::sync::mpsc::channel(1);
    let mut session = mk_session(handler.clone(), rx);
    let mut io = PhysLayer::new_verif(VerifIo::new());
    let unit: u8 = kani::any();
    let tx: u16 = kani::any();
    let body: [u8; 4] = kani::any();
    let mut frame = Frame::new(FrameHeader::new_tcp_header(UnitId::new(unit), TxId::new(tx)));
    frame.set(&[6, body[0], body[1], body[2], body[3]]);
    let res = block_on(session.handle_frame(&mut io, frame));
    assert!(res.is_ok());
    let calls = handler.lock().unwrap().calls;
    let v = io.verif();
    if unit == 1 {
        assert!(v.writes == 1);
        assert!(v.out_len == 12);
        assert!(calls == 1);
        assert!(v.out[7] == 6 && v.out[8] == body[0] && v.out[11] == body[3]);
    } else {
        assert!(v.writes == 0);
        assert!(calls == 0);
    }
    kani::cover!(unit == 1, "mapped");
    kani::cover!(unit != 1, "unmapped");
    std::mem::forget(io);
    std::mem::forget(session);
    std::mem::forget(ctx);
    std::mem::forget(handler);
}
