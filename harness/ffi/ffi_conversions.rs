//! Harnesses attached to ffi/rodbus-ffi/src/helpers/conversions.rs (C18: same-named counterparts)
#![allow(unused)]
use super::*;

//@ props: C18
//@ fns: rodbus_ffi::helpers::conversions::<impl From<rodbus::RequestError> for ffi::RequestError>::from, <impl From<rodbus::ExceptionCode> for ffi::RequestError>::from
//@ bounds: every RequestError variant with symbolic payloads; all 256 exception codes
/// each error and exception is reported through the C ABI as its same-named counterpart
#[kani::proof]
fn c18_error_conversion() {
    let k: u8 = kani::any();
    let raw: u8 = kani::any();
    let (err, want) = match k {
        0 => (rodbus::RequestError::Io(std::io::ErrorKind::ConnectionReset), ffi::RequestError::IoError),
        1 => (rodbus::RequestError::BadRequest(rodbus::InvalidRequest::CountTooBigForU16(raw as usize)), ffi::RequestError::BadRequest),
        2 => (rodbus::RequestError::BadFrame(rodbus::FrameParseError::MbapLengthZero), ffi::RequestError::BadFraming),
        3 => (rodbus::RequestError::BadResponse(rodbus::AduParseError::InsufficientBytes), ffi::RequestError::BadResponse),
        4 => (rodbus::RequestError::Internal(rodbus::InternalError::BadSeekOperation), ffi::RequestError::InternalError),
        5 => (rodbus::RequestError::ResponseTimeout, ffi::RequestError::ResponseTimeout),
        6 => (rodbus::RequestError::NoConnection, ffi::RequestError::NoConnection),
        7 => (rodbus::RequestError::Shutdown, ffi::RequestError::Shutdown),
        _ => {
            let ex = rodbus::ExceptionCode::from(raw);
            let w = match raw {
                1 => ffi::RequestError::ModbusExceptionIllegalFunction,
                2 => ffi::RequestError::ModbusExceptionIllegalDataAddress,
                3 => ffi::RequestError::ModbusExceptionIllegalDataValue,
                4 => ffi::RequestError::ModbusExceptionServerDeviceFailure,
                5 => ffi::RequestError::ModbusExceptionAcknowledge,
                6 => ffi::RequestError::ModbusExceptionServerDeviceBusy,
                8 => ffi::RequestError::ModbusExceptionMemoryParityError,
                10 => ffi::RequestError::ModbusExceptionGatewayPathUnavailable,
                11 => ffi::RequestError::ModbusExceptionGatewayTargetDeviceFailedToRespond,
                _ => ffi::RequestError::ModbusExceptionUnknown,
            };
            (rodbus::RequestError::Exception(ex), w)
        }
    };
    let got: ffi::RequestError = err.into();
    assert!(got == want, "[C18] each error / exception is reported as its same-named counterpart");
    kani::cover!(k == 8 && raw == 11, "gateway target exception");
    kani::cover!(k == 5, "timeout");
}

//@ props: C18 C20
//@ fns: rodbus_ffi::helpers::conversions::<impl From<ffi::DecodeLevel> for rodbus::DecodeLevel>::from, <impl From<ffi::Authorization> for Authorization>::from, <impl From<AddressRange> for ffi::AddressRange>::from, <impl From<ffi::BitValue> for Indexed<bool>>, <impl From<ffi::RegisterValue> for Indexed<u16>>, <impl From<Shutdown> for ffi::ParamError>
//@ bounds: all 36 decode levels; every range / value
#[kani::proof]
fn c18_value_conversions() {
    let a: u8 = kani::any();
    let f: u8 = kani::any();
    let p: u8 = kani::any();
    kani::assume(a < 4 && f < 3 && p < 3);
    let lvl = ffi::DecodeLevel { app: a as i32, frame: f as i32, physical: p as i32 };
    let got: rodbus::DecodeLevel = lvl.into();
    let wa = match a {
        0 => rodbus::AppDecodeLevel::Nothing,
        1 => rodbus::AppDecodeLevel::FunctionCode,
        2 => rodbus::AppDecodeLevel::DataHeaders,
        _ => rodbus::AppDecodeLevel::DataValues,
    };
    let wf = match f {
        0 => rodbus::FrameDecodeLevel::Nothing,
        1 => rodbus::FrameDecodeLevel::Header,
        _ => rodbus::FrameDecodeLevel::Payload,
    };
    let wp = match p {
        0 => rodbus::PhysDecodeLevel::Nothing,
        1 => rodbus::PhysDecodeLevel::Length,
        _ => rodbus::PhysDecodeLevel::Data,
    };
    assert!(got.app == wa && got.frame == wf && got.physical == wp, "[C18] decode levels cross the boundary as their same-named counterparts");
    let start: u16 = kani::any();
    let count: u16 = kani::any();
    let r: ffi::AddressRange = AddressRange { start, count }.into();
    assert!(r.start == start && r.count == count, "[C18] ranges pass through unchanged");
    let bv: rodbus::Indexed<bool> = ffi::BitValue { index: start, value: count & 1 == 1 }.into();
    assert!(bv.index == start && bv.value == (count & 1 == 1), "[C18] values pass through unchanged");
    let rv: rodbus::Indexed<u16> = ffi::RegisterValue { index: start, value: count }.into();
    assert!(rv.index == start && rv.value == count, "[C18] values pass through unchanged");
    let au: Authorization = if kani::any() { ffi::Authorization::Allow.into() } else { ffi::Authorization::Deny.into() };
    let pe: ffi::ParamError = rodbus::Shutdown.into();
    assert!(pe == ffi::ParamError::Shutdown, "[C18] shutdown is reported as shutdown");
    assert!(Authorization::from(ffi::Authorization::Allow) == Authorization::Allow && Authorization::from(ffi::Authorization::Deny) == Authorization::Deny, "[C18] authorization answers cross unchanged");
    kani::cover!(a == 3 && f == 2 && p == 2, "highest level");
    kani::cover!(a == 0 && f == 0 && p == 0, "lowest level");
}
