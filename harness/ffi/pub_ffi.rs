//! Attached to rodbus/src/lib.rs in the `ffi` engine as a PUBLIC module: constructors for rodbus types whose
//! real constructors are crate-private, so that harnesses in rodbus-ffi can build server-side requests.
#![allow(unused, missing_docs)]
use crate::types::{AddressRange, BitIterator, RegisterIterator};
use scursor::ReadCursor;

pub fn bits<'a>(range: AddressRange, bytes: &'a [u8]) -> Option<BitIterator<'a>> {
    // BitIterator::parse_all borrows the cursor for 'a; leak a cursor so the iterator can outlive this call
    let cursor: &'a mut ReadCursor<'a> = Box::leak(Box::new(ReadCursor::new(bytes)));
    BitIterator::parse_all(range, cursor).ok()
}

pub fn regs<'a>(range: AddressRange, bytes: &'a [u8]) -> Option<RegisterIterator<'a>> {
    let cursor: &'a mut ReadCursor<'a> = Box::leak(Box::new(ReadCursor::new(bytes)));
    RegisterIterator::parse_all(range, cursor).ok()
}
