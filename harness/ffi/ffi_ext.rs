//! Harnesses attached to ffi/rodbus-ffi/src/helpers/ext.rs
#![allow(unused)]
use super::*;

//@ props: C18
//@ fns: rodbus_ffi::helpers::ext::<impl ffi::WriteResult>::convert_to_result, ffi::WriteResult::exception (generated c_int -> enum)
//@ bounds: none - success flag x the ten exception enum values x all 256 raw codes
#[kani::proof]
fn c18_write_result_conversion() {
    let success: bool = kani::any();
    let raw: u8 = kani::any();
    let e: u8 = kani::any();
    kani::assume(e < 10);
    let (code, want) = match e {
        0 => (1, rodbus::ExceptionCode::IllegalFunction),
        1 => (2, rodbus::ExceptionCode::IllegalDataAddress),
        2 => (3, rodbus::ExceptionCode::IllegalDataValue),
        3 => (4, rodbus::ExceptionCode::ServerDeviceFailure),
        4 => (5, rodbus::ExceptionCode::Acknowledge),
        5 => (6, rodbus::ExceptionCode::ServerDeviceBusy),
        6 => (8, rodbus::ExceptionCode::MemoryParityError),
        7 => (10, rodbus::ExceptionCode::GatewayPathUnavailable),
        8 => (11, rodbus::ExceptionCode::GatewayTargetDeviceFailedToRespond),
        _ => (255, rodbus::ExceptionCode::Unknown(raw)),
    };
    let r = ffi::WriteResult { success, exception: code, raw_exception: raw };
    let got = r.convert_to_result();
    if success {
        assert!(got == Ok(()), "[C18] success is success");
    } else {
        assert!(got == Err(want), "[C18] a standard exception or a raw code is forwarded as such");
    }
    kani::cover!(!success && e == 9, "raw exception code");
    kani::cover!(success, "success");
}
