//! Harnesses attached to ffi/rodbus-ffi/src/server.rs: the C-ABI request handler (C18, C19)
#![allow(unused)]
use super::*;
use crate::*;
use rodbus::{AddressRange, BitIterator, RegisterIterator};
use std::os::raw::c_void;
use std::sync::atomic::{AtomicU16, AtomicU32, Ordering::Relaxed};

static CB_CALLS: AtomicU32 = AtomicU32::new(0);
static CB_INDEX: AtomicU16 = AtomicU16::new(0);
static CB_VALUE: AtomicU16 = AtomicU16::new(0);
static CB_ITEMS: AtomicU32 = AtomicU32::new(0);
static CB_LAST_INDEX: AtomicU16 = AtomicU16::new(0);
static CB_LAST_VALUE: AtomicU16 = AtomicU16::new(0);

fn ret(ctx: *mut c_void) -> ffi::WriteResult {
    // the "application" returns whatever the harness put behind ctx
    let r = unsafe { &*(ctx as *const ffi::WriteResult) };
    r.clone()
}

extern "C" fn cb_coil(i: u16, v: bool, _db: *mut crate::Database, ctx: *mut c_void) -> ffi::WriteResult {
    CB_CALLS.fetch_add(1, Relaxed);
    CB_INDEX.store(i, Relaxed);
    CB_VALUE.store(v as u16, Relaxed);
    ret(ctx)
}
extern "C" fn cb_reg(i: u16, v: u16, _db: *mut crate::Database, ctx: *mut c_void) -> ffi::WriteResult {
    CB_CALLS.fetch_add(1, Relaxed);
    CB_INDEX.store(i, Relaxed);
    CB_VALUE.store(v, Relaxed);
    ret(ctx)
}
extern "C" fn cb_coils<'a>(start: u16, it: *mut crate::BitValueIterator<'a>, _db: *mut crate::Database, ctx: *mut c_void) -> ffi::WriteResult {
    CB_CALLS.fetch_add(1, Relaxed);
    CB_INDEX.store(start, Relaxed);
    let mut n = 0;
    while let Some(x) = unsafe { crate::iterator::bit_value_iterator_next(it) } {
        CB_LAST_INDEX.store(x.index, Relaxed);
        CB_LAST_VALUE.store(x.value as u16, Relaxed);
        n += 1;
    }
    CB_ITEMS.store(n, Relaxed);
    ret(ctx)
}
extern "C" fn cb_regs<'a>(start: u16, it: *mut crate::RegisterValueIterator<'a>, _db: *mut crate::Database, ctx: *mut c_void) -> ffi::WriteResult {
    CB_CALLS.fetch_add(1, Relaxed);
    CB_INDEX.store(start, Relaxed);
    let mut n = 0;
    while let Some(x) = unsafe { crate::iterator::register_value_iterator_next(it) } {
        CB_LAST_INDEX.store(x.index, Relaxed);
        CB_LAST_VALUE.store(x.value, Relaxed);
        n += 1;
    }
    CB_ITEMS.store(n, Relaxed);
    ret(ctx)
}

/// every WriteResult an application can legally return: success, one of the standard exceptions, or a raw code
fn any_result() -> ffi::WriteResult {
    let e: u8 = kani::any();
    let ex = match e % 10 {
        0 => ffi::ModbusException::IllegalFunction,
        1 => ffi::ModbusException::IllegalDataAddress,
        2 => ffi::ModbusException::IllegalDataValue,
        3 => ffi::ModbusException::ServerDeviceFailure,
        4 => ffi::ModbusException::Acknowledge,
        5 => ffi::ModbusException::ServerDeviceBusy,
        6 => ffi::ModbusException::MemoryParityError,
        7 => ffi::ModbusException::GatewayPathUnavailable,
        8 => ffi::ModbusException::GatewayTargetDeviceFailedToRespond,
        _ => ffi::ModbusException::Unknown,
    };
    ffi::WriteResult { success: kani::any(), exception: ex.into(), raw_exception: kani::any() }
}

/// independent statement of what the client must receive for an application result
fn expected(r: &ffi::WriteResult) -> Result<(), ExceptionCode> {
    if r.success {
        return Ok(());
    }
    Err(match r.exception {
        1 => ExceptionCode::IllegalFunction,
        2 => ExceptionCode::IllegalDataAddress,
        3 => ExceptionCode::IllegalDataValue,
        4 => ExceptionCode::ServerDeviceFailure,
        5 => ExceptionCode::Acknowledge,
        6 => ExceptionCode::ServerDeviceBusy,
        8 => ExceptionCode::MemoryParityError,
        10 => ExceptionCode::GatewayPathUnavailable,
        11 => ExceptionCode::GatewayTargetDeviceFailedToRespond,
        _ => ExceptionCode::Unknown(r.raw_exception),
    })
}

fn handler(res: &mut ffi::WriteResult, present: bool) -> ffi::WriteHandler {
    ffi::WriteHandler {
        write_single_coil: if present { Some(cb_coil) } else { None },
        write_single_register: if present { Some(cb_reg) } else { None },
        write_multiple_coils: if present { Some(cb_coils) } else { None },
        write_multiple_registers: if present { Some(cb_regs) } else { None },
        on_destroy: None,
        ctx: res as *mut _ as *mut c_void,
    }
}

//@ props: C18
//@ timeout: 900
//@ fns: rodbus_ffi::server::<RequestHandlerWrapper as RequestHandler>::write_single_coil, write_single_register, ffi::WriteHandler::write_single_coil / write_single_register (generated), helpers::ext::WriteResult::convert_to_result
//@ bounds: none - every index/value, every WriteResult (success flag x 10 exception enum values x 256 raw codes), callback present or absent
//@ stubs: the application callback is an extern "C" function returning a solver-chosen WriteResult; std RandomState::new = fixed SipHash keys
/// what the application's write callback returns is what the client receives, and the callback gets exactly the
/// index and value that were sent
#[kani::proof]
#[kani::unwind(4)]
#[kani::stub(std::hash::RandomState::new, fixed_state)]
fn c18_write_single_passthrough() {
    let mut res = any_result();
    let present: bool = kani::any();
    let mut w = RequestHandlerWrapper { database: Database { coils: Default::default(), discrete_input: Default::default(), holding_registers: Default::default(), input_registers: Default::default() }, write_handler: handler(&mut res, present) };
    let idx: u16 = kani::any();
    let want = if present { expected(&res) } else { Err(ExceptionCode::IllegalFunction) };
    if kani::any() {
        let v: bool = kani::any();
        let got = w.write_single_coil(Indexed::new(idx, v));
        assert!(got == want, "[C18] write_single_coil: the application's WriteResult is what the client receives");
        if present {
            assert!(CB_CALLS.load(Relaxed) == 1 && CB_INDEX.load(Relaxed) == idx && CB_VALUE.load(Relaxed) == v as u16, "[C18] index and value reach the callback unchanged");
        }
        kani::cover!(present && !res.success && res.exception == 4, "coil write refused with ServerDeviceFailure");
    } else {
        let v: u16 = kani::any();
        let got = w.write_single_register(Indexed::new(idx, v));
        assert!(got == want, "[C18] write_single_register: the application's WriteResult is what the client receives");
        if present {
            assert!(CB_CALLS.load(Relaxed) == 1 && CB_INDEX.load(Relaxed) == idx && CB_VALUE.load(Relaxed) == v, "[C18] index and value reach the callback unchanged");
        }
        kani::cover!(present && !res.success && res.exception == 255, "register write refused with a raw code");
    }
    if !present {
        assert!(CB_CALLS.load(Relaxed) == 0);
    }
    kani::cover!(present && res.success, "accepted");
    kani::cover!(!present, "no callback registered");
    std::mem::forget(w);
}

//@ props: C18
//@ timeout: 1200
//@ fns: rodbus_ffi::server::<RequestHandlerWrapper as RequestHandler>::write_multiple_coils, write_multiple_registers, iterator::BitValueIterator::new, bit_value_iterator_next, RegisterValueIterator::new, register_value_iterator_next
//@ bounds: 2 registers / 3 coils with symbolic start and values, every WriteResult, callback present or absent
#[kani::proof]
#[kani::unwind(6)]
#[kani::stub(std::hash::RandomState::new, fixed_state)]
fn c18_write_multiple_passthrough() {
    let mut res = any_result();
    let present: bool = kani::any();
    let mut w = RequestHandlerWrapper { database: Database { coils: Default::default(), discrete_input: Default::default(), holding_registers: Default::default(), input_registers: Default::default() }, write_handler: handler(&mut res, present) };
    let start: u16 = kani::any();
    kani::assume(start < 0xFFF0);
    let data: [u8; 4] = kani::any();
    let want = if present { expected(&res) } else { Err(ExceptionCode::IllegalFunction) };
    if kani::any() {
        let range = AddressRange::try_from(start, 3).unwrap();
        let values = crate::server::verif_ffi_server::coils_request(range, &data);
        let got = w.write_multiple_coils(values);
        assert!(got == want, "[C18] write_multiple_coils: the application's WriteResult is what the client receives");
        if present {
            assert!(CB_CALLS.load(Relaxed) == 1 && CB_INDEX.load(Relaxed) == start && CB_ITEMS.load(Relaxed) == 3, "[C18] start and all items reach the callback");
            assert!(CB_LAST_INDEX.load(Relaxed) == start + 2 && CB_LAST_VALUE.load(Relaxed) == ((data[0] >> 2) & 1) as u16, "[C18] item values unchanged");
        }
    } else {
        let range = AddressRange::try_from(start, 2).unwrap();
        let values = crate::server::verif_ffi_server::regs_request(range, &data);
        let got = w.write_multiple_registers(values);
        assert!(got == want, "[C18] write_multiple_registers: the application's WriteResult is what the client receives");
        if present {
            assert!(CB_CALLS.load(Relaxed) == 1 && CB_INDEX.load(Relaxed) == start && CB_ITEMS.load(Relaxed) == 2, "[C18] start and all items reach the callback");
            assert!(CB_LAST_INDEX.load(Relaxed) == start + 1 && CB_LAST_VALUE.load(Relaxed) == ((data[2] as u16) << 8 | data[3] as u16), "[C18] item values unchanged");
        }
    }
    kani::cover!(present && !res.success, "refused");
    kani::cover!(present && res.success, "accepted");
    std::mem::forget(w);
}

/// build the server-side request objects through the public parser (their iterator fields are private to rodbus)
pub(crate) fn coils_request<'a>(range: AddressRange, data: &'a [u8; 4]) -> WriteCoils<'a> {
    let mut it = None;
    rodbus_verif_parse_bits(range, &data[..1], &mut it);
    WriteCoils { range, iterator: it.unwrap() }
}

pub(crate) fn regs_request<'a>(range: AddressRange, data: &'a [u8; 4]) -> WriteRegisters<'a> {
    let mut it = None;
    rodbus_verif_parse_regs(range, &data[..4], &mut it);
    WriteRegisters { range, iterator: it.unwrap() }
}

fn rodbus_verif_parse_bits<'a>(range: AddressRange, bytes: &'a [u8], out: &mut Option<BitIterator<'a>>) {
    *out = rodbus::verif_pub_ffi::bits(range, bytes);
}

fn rodbus_verif_parse_regs<'a>(range: AddressRange, bytes: &'a [u8], out: &mut Option<RegisterIterator<'a>>) {
    *out = rodbus::verif_pub_ffi::regs(range, bytes);
}

fn fixed_state() -> std::collections::hash_map::RandomState {
    // RandomState::new() reads OS randomness (a syscall CBMC cannot model): fixed keys, SipHash itself is executed
    unsafe { std::mem::transmute::<(u64, u64), std::collections::hash_map::RandomState>((0x0123456789abcdef, 0xfedcba9876543210)) }
}

// ATTEMPTED AND INTRACTABLE (unregistered, `props: ZZ`; C19 is listed as not_applicable). Measured:
//   3 ops, symbolic indices, unwind 5 ........ > 30 min (killed)
//   2 ops, symbolic indices, unwind 4 ........ unwinding assertion fails inside hashbrown (bound too small: reported inconclusive)
//   2 ops, symbolic indices, unwind 6 ........ time-out at 30 min, no result
//   3 ops, CONCRETE indices, unwind 6 ........ time-out at 30 min, no result
// std::collections::HashMap (hashbrown RawTable + SipHash) is a "pointer-rich heap-backed container": a weak target.
//@ props: ZZ
//@ timeout: 1800
//@ fns: rodbus_ffi::database::database_add_* / database_get_* / database_update_* / database_delete_* (add_entry, get_entry, update_entry, HashMap::remove), Database::new, server::<RequestHandlerWrapper as RequestHandler>::read_coil / read_discrete_input / read_holding_register / read_input_register
//@ bounds: unwind 6; every script of 3 operations over {add, update, delete, get} x the four point types x two CONCRETE indices (7 and 300; symbolic indices make hashbrown's probe loops unbounded for the unwinder) with symbolic values, compared with a reference Option<value> per (type, index); then a client read of both indices
//@ stubs: std RandomState::new = fixed SipHash keys (getrandom is a syscall)
//@ outside: atomicity of update transactions against concurrent client reads - a thread-schedule property; Kani is sequential (the argument is one mutex held across get_reply, not checkable here)
#[kani::proof]
#[kani::unwind(6)]
#[kani::stub(std::hash::RandomState::new, fixed_state)]
fn c19_database_map_semantics() {
    let mut db = Database::new();
    let p = &mut db as *mut Database;
    // CONCRETE indices: SipHash of a constant key folds to a constant, so hashbrown's probe sequence is concrete and
    // its loops unwind. With symbolic indices no unwind bound both terminates and passes the unwinding assertion
    // (measured: unwind 4 too small, unwind 6 > 30 min). The map semantics do not depend on WHICH two distinct
    // indices are used - the reference below is per index; values and the operation script stay symbolic.
    let i0: u16 = 7;
    let i1: u16 = 300;
    let ty: u8 = kani::any();
    kani::assume(ty < 4);
    // reference: Option<u16> per index for the chosen type (bools as 0/1)
    let mut r: [Option<u16>; 2] = [None, None];
    let mut step = 0;
    while step < 3 {
        let op: u8 = kani::any();
        kani::assume(op < 4);
        let which: usize = if kani::any() { 0 } else { 1 };
        let idx = if which == 0 { i0 } else { i1 };
        let val: u16 = kani::any();
        let vb = val & 1 == 1;
        let rv = if ty < 2 { vb as u16 } else { val };
        unsafe {
            match op {
                0 => {
                    let ok = match ty {
                        0 => database_add_coil(p, idx, vb),
                        1 => database_add_discrete_input(p, idx, vb),
                        2 => database_add_holding_register(p, idx, val),
                        _ => database_add_input_register(p, idx, val),
                    };
                    assert!(ok == r[which].is_none(), "[C19] add succeeds only for absent indices");
                    if ok {
                        r[which] = Some(rv);
                    }
                }
                1 => {
                    let ok = match ty {
                        0 => database_update_coil(p, idx, vb),
                        1 => database_update_discrete_input(p, idx, vb),
                        2 => database_update_holding_register(p, idx, val),
                        _ => database_update_input_register(p, idx, val),
                    };
                    assert!(ok == r[which].is_some(), "[C19] update succeeds only for present indices");
                    if ok {
                        r[which] = Some(rv);
                    }
                }
                2 => {
                    let ok = match ty {
                        0 => database_delete_coil(p, idx),
                        1 => database_delete_discrete_input(p, idx),
                        2 => database_delete_holding_register(p, idx),
                        _ => database_delete_input_register(p, idx),
                    };
                    assert!(ok == r[which].is_some(), "[C19] delete succeeds only for present indices");
                    r[which] = None;
                }
                _ => {
                    let got: Result<u16, ffi::ParamError> = match ty {
                        0 => database_get_coil(p, idx).map(|b| b as u16),
                        1 => database_get_discrete_input(p, idx).map(|b| b as u16),
                        2 => database_get_holding_register(p, idx),
                        _ => database_get_input_register(p, idx),
                    };
                    match (got, r[which]) {
                        (Ok(g), Some(w)) => assert!(g == w, "[C19] get returns the stored value"),
                        (Err(e), None) => assert!(e == ffi::ParamError::InvalidIndex, "[C19] get fails for absent indices"),
                        _ => assert!(false, "[C19] get disagrees with the map contents"),
                    }
                }
            }
        }
        step += 1;
    }
    // what a client read sees: value for present points, exception 02 for absent ones
    let mut none = ffi::WriteResult { success: true, exception: 1, raw_exception: 0 };
    let w = RequestHandlerWrapper { database: db, write_handler: handler(&mut none, false) };
    let mut k = 0;
    while k < 2 {
        let idx = if k == 0 { i0 } else { i1 };
        let got: Result<u16, ExceptionCode> = match ty {
            0 => w.read_coil(idx).map(|b| b as u16),
            1 => w.read_discrete_input(idx).map(|b| b as u16),
            2 => w.read_holding_register(idx),
            _ => w.read_input_register(idx),
        };
        match r[k] {
            Some(v) => assert!(got == Ok(v), "[C19] a client read returns the stored value"),
            None => assert!(got == Err(ExceptionCode::IllegalDataAddress), "[C19] a client read touching an absent point is answered with exception 02"),
        }
        // the other three types never see this type's points
        if ty != 2 {
            assert!(w.read_holding_register(idx) == Err(ExceptionCode::IllegalDataAddress), "[C19] one map per point type");
        }
        if ty != 0 {
            assert!(w.read_coil(idx) == Err(ExceptionCode::IllegalDataAddress), "[C19] one map per point type");
        }
        k += 1;
    }
    kani::cover!(r[0].is_some() && r[1].is_some(), "both points present at the end");
    kani::cover!(r[0].is_none() && r[1].is_none(), "both absent at the end");
    std::mem::forget(w);
}
