"""Build the scratch tree that Kani compiles.

The tree is an rsync copy of /repo's *current working tree* (so edits to /repo are what is
checked) with three mechanical edits that never touch a production source line:

  1. the workspace is reduced to the crates an engine needs,
  2. for the `rodbus` engine `tracing` is replaced by the no-op facade in /verif/shims/tracing
     (Kani 0.68 ICEs on tracing's thread-local dispatcher),
  3. one line `#[cfg(kani)] #[path = ".."] mod verif_<x>;` is appended to the END of each host
     file so that the harness module is a child module and can reach private items.

Nothing here is kept between runs except the cargo target dir (a cache).
"""
import os
import re
import shutil
import subprocess

VERIF = os.path.dirname(os.path.dirname(os.path.abspath(__file__)))
REPO = os.environ.get("VERIF_REPO", "/repo")
WORK = os.environ.get("VERIF_WORK", "/var/tmp/rodbus-verif")

# harness module  ->  host file (relative to the repo root) it is attached to
HOSTS = {
    "rodbus": {
        "support": "rodbus/src/lib.rs",
        "types": "rodbus/src/types.rs",
        "frame": "rodbus/src/common/frame.rs",
        "buffer": "rodbus/src/common/buffer.rs",
        "tcp_frame": "rodbus/src/tcp/frame.rs",
        "serial_frame": "rodbus/src/serial/frame.rs",
        "server_request": "rodbus/src/server/request.rs",
        "server_task": "rodbus/src/server/task.rs",
        "server_handler": "rodbus/src/server/handler.rs",
        "tcp_server": "rodbus/src/tcp/server.rs",
        "address_filter": "rodbus/src/server/address_filter.rs",
        "client_message": "rodbus/src/client/message.rs",
        "client_task": "rodbus/src/client/task.rs",
        "client_read_bits": "rodbus/src/client/requests/read_bits.rs",
        "client_read_registers": "rodbus/src/client/requests/read_registers.rs",
        "client_write_single": "rodbus/src/client/requests/write_single.rs",
        "client_write_multiple": "rodbus/src/client/requests/write_multiple.rs",
        "retry": "rodbus/src/retry.rs",
        "tls_client": "rodbus/src/tcp/tls/client.rs",
        "error": "rodbus/src/error.rs",
        "decode": "rodbus/src/decode.rs",
        "serialize": "rodbus/src/common/serialize.rs",
        "phys": "rodbus/src/common/phys.rs",
    },
    # same crate, compiled with --cfg verif_small_frames (hook H3: MAX_ADU_LENGTH = 13) for the session glue
    "small": {
        "support": "rodbus/src/lib.rs",
        "glue_server": "rodbus/src/server/task.rs",
        "glue_client": "rodbus/src/client/task.rs",
        "glue_reader": "rodbus/src/common/frame.rs",
    },
    "ffi": {
        "pub_ffi": "rodbus/src/lib.rs",
        "ffi_support": "ffi/rodbus-ffi/src/lib.rs",
        "ffi_server": "ffi/rodbus-ffi/src/server.rs",
        "ffi_client": "ffi/rodbus-ffi/src/client.rs",
        "ffi_database": "ffi/rodbus-ffi/src/database.rs",
        "ffi_conversions": "ffi/rodbus-ffi/src/helpers/conversions.rs",
        "ffi_ext": "ffi/rodbus-ffi/src/helpers/ext.rs",
    },
}

MEMBERS = {
    "rodbus": ["rodbus"],
    "small": ["rodbus"],
    "ffi": ["rodbus", "ffi/rodbus-ffi", "ffi/rodbus-schema"],
}

PACKAGE = {"rodbus": "rodbus", "small": "rodbus", "ffi": "rodbus-ffi"}
RUSTFLAGS = {"small": "--cfg verif_small_frames"}
SHIM_TRACING = {"rodbus", "small"}


def harness_file(engine, mod):
    # `support` is shared between the two rodbus engines
    d = "rodbus" if (engine == "small" and mod == "support") else engine
    return os.path.join(VERIF, "harness", d, mod + ".rs")


def workdir(engine, tag):
    return os.path.join(WORK, f"{engine}-{tag}")


def _write_if_changed(path, content):
    try:
        with open(path) as f:
            if f.read() == content:
                return False
    except FileNotFoundError:
        pass
    os.makedirs(os.path.dirname(path), exist_ok=True)
    with open(path, "w") as f:
        f.write(content)
    return True


def weave(engine, tag, tier="quick"):
    """create/refresh the scratch tree; returns (src_dir, target_dir, attached)"""
    root = workdir(engine, tag)
    src = os.path.join(root, "src")
    target = os.path.join(root, "target")
    os.makedirs(src, exist_ok=True)
    attach = []
    for mod, host in HOSTS[engine].items():
        hfile = harness_file(engine, mod)
        if os.path.exists(hfile):
            attach.append((mod, host, hfile))
    edited = ["Cargo.toml"] + [m + "/Cargo.toml" for m in MEMBERS[engine]] + [h for _, h, _ in attach]
    # checksum-based so that unchanged files keep their mtime and cargo stays incremental;
    # files that are edited below are excluded here and written only when their content changes
    cmd = ["rsync", "-a", "--delete", "--checksum",
           "--exclude", "/target", "--exclude", "/.git", "--exclude", "*.orig", "--exclude", "*.rej",
           "--exclude", "/verif_tier.rs"]
    for e in edited:
        cmd += ["--exclude", "/" + e]
    cmd += [REPO + "/", src + "/"]
    subprocess.run(cmd, check=True)

    def repo_text(rel):
        p = os.path.join(REPO, rel)
        if not os.path.exists(p):
            raise RuntimeError(f"{rel} no longer exists in {REPO}")
        with open(p) as f:
            return f.read()

    # 1. workspace members  2. tracing shim
    txt = repo_text("Cargo.toml")
    members = ",\n".join(f'  "{m}"' for m in MEMBERS[engine])
    txt, n = re.subn(r"(?s)members\s*=\s*\[.*?\]", "members = [\n" + members + "\n]", txt, count=1)
    assert n == 1, "workspace members not found in Cargo.toml"
    if engine in SHIM_TRACING:
        txt += f'\n[patch.crates-io]\ntracing = {{ path = "{VERIF}/shims/tracing" }}\n'
    _write_if_changed(os.path.join(src, "Cargo.toml"), txt)
    for m in MEMBERS[engine]:
        t = repo_text(m + "/Cargo.toml")
        t = re.sub(r"(?m)^\[lints\]\s*\nworkspace\s*=\s*true\s*\n", "", t)
        _write_if_changed(os.path.join(src, m, "Cargo.toml"), t)
    # 3. attach the harness modules (appended at EOF; production lines are compiled unchanged)
    attached = []
    for mod, host, hfile in attach:
        t = repo_text(host)
        vis = "pub" if mod.startswith("pub_") else "pub(crate)"
        t += f'\n#[cfg(kani)]\n#[path = "{hfile}"]\n{vis} mod verif_{mod};\n'
        _write_if_changed(os.path.join(src, host), t)
        attached.append((mod, host))
    _write_if_changed(
        os.path.join(src, "verif_tier.rs"),
        f"pub(crate) const THOROUGH: bool = {'true' if tier == 'thorough' else 'false'};\n",
    )
    return src, target, attached


def clean(engine=None, tag=None):
    if engine and tag:
        shutil.rmtree(workdir(engine, tag), ignore_errors=True)
    else:
        shutil.rmtree(WORK, ignore_errors=True)
