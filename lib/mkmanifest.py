#!/usr/bin/env python3
"""Regenerate /verif/MANIFEST.json from the tables below (run after changing claims)."""
import json
import os
import sys

HERE = os.path.dirname(os.path.abspath(__file__))
VERIF = os.path.dirname(HERE)

TECH = "bounded model checking of the compiled real functions: Kani 0.68 / CBMC 6.11 / CaDiCaL over kani::any() inputs"
COMMON_NOTE = (
    " Trusted base: rustc MIR -> Kani -> CBMC -> CaDiCaL; Kani's models of alloc/atomics/Mutex (sequential); "
    "dev-profile semantics (overflow checks on). Stubs: `tracing` facade = no-op shim in solver runs "
    "(real tracing in native replays). Every verdict is bounded by the unwind/size bounds listed per query in the "
    "evidence file; unwinding assertions are on; time-out/OOM/compile failure/unsatisfied vacuity witness = exit 2, "
    "never a pass. Counterexamples are replayed natively (cargo kani playback) before a VIOLATION line is printed."
)

# property -> claim
CLAIMS = {
    "C11": {
        "text": "Bounded model checking (Kani/CBMC) of the real `TxId::next` from an ARBITRARY state: returns the old "
                "value, advances by one modulo 2^16, consecutive ids differ. Because the step is checked from every "
                "state it is an inductive argument covering any number of requests including the wrap after 65535. "
                "Transaction-id placement in the MBAP header is decided by the C03 encoders.",
        "note": "Decides id generation/stamping only. NOT decided: the discard-on-mismatch receive loop and the "
                "idle-state reader (ClientLoop::execute_request/poll use tokio::select!, mpsc::recv and timers which "
                "Kani 0.68 cannot compile (ICE on thread-locals) or execute (no runtime))." + COMMON_NOTE,
        "design": "DESIGN.md 5.11",
    },
}

NOT_APPLICABLE = {
    "C13": "every clause is about the tokio task's state path (TcpChannelTask::run_inner/try_connect_and_run, sockets, "
           "timers, listener awaits); Kani 0.68 can neither compile (ICE on thread-locals reached by select!/recv/time) "
           "nor execute it (no runtime) and there is no synchronous kernel that carries the property",
}

ALL = [f"C{n:02d}" for n in range(1, 21)]
PENDING = "check not yet built in this revision of /verif (kernel harnesses are being added property by property)"


def main():
    checks = []
    for pid in ALL:
        if pid not in CLAIMS:
            continue
        c = CLAIMS[pid]
        checks.append({
            "property_id": pid,
            "quick_cmd": f"./check {pid} --tier quick",
            "thorough_cmd": f"./check {pid} --tier thorough",
            "evidence_file": f"/verif/evidence/{pid}.json",
            "replay_cmd_template": f"./check {pid} --replay {{path}}",
            "engine": "kani",
            "level_claimed": {"category": "model_checking", "text": c["text"], "design_ref": c["design"]},
            "level_note": c["note"],
            "technique": c.get("technique", TECH),
        })
    na = []
    for pid in ALL:
        if pid in CLAIMS:
            continue
        na.append({"property_id": pid, "reason": NOT_APPLICABLE.get(pid, PENDING)})
    hooks_file = os.path.join(VERIF, "hooks.json")
    hooks = {
        "guard": "cfg(kani)",
        "enable": "set automatically by `cargo kani` (rustc --cfg kani); ordinary cargo build/test never sees hook code",
        "baseline_off_cmd": "cd /repo && cargo nextest run --workspace --no-fail-fast --test-threads 8 --offline || "
                            "(cd /repo && cargo test --workspace --no-fail-fast --offline)",
        "source_commits": [],
        "add_only": True,
    }
    if os.path.exists(hooks_file):
        with open(hooks_file) as f:
            hooks.update(json.load(f))
    m = {
        "version": 1,
        "setup_cmd": "./check --setup",
        "hooks": hooks,
        "engines": [
            {"name": "kani", "path": "/verif/check",
             "serves_properties": [c["property_id"] for c in checks],
             "kind_free_text": "Kani 0.68 proof harnesses (in /verif/harness) woven as child modules into a scratch copy "
                               "of /repo's working tree; CBMC 6.11 + CaDiCaL decide; counterexamples replayed natively"},
        ],
        "checks": checks,
        "not_applicable": na,
        "notes": "All checks are solver-based (bounded model checking of the real code). Exit 2 = inconclusive. "
                 "See DESIGN.md for bounds, stubs and what lies outside each claim.",
    }
    with open(os.path.join(VERIF, "MANIFEST.json"), "w") as f:
        json.dump(m, f, indent=1)
    print(f"MANIFEST.json: {len(checks)} checks, {len(na)} not_applicable")


if __name__ == "__main__":
    sys.exit(main())
