#!/usr/bin/env python3
"""Regenerate /verif/MANIFEST.json from the tables below (run after changing claims)."""
import json
import os
import sys

HERE = os.path.dirname(os.path.abspath(__file__))
VERIF = os.path.dirname(HERE)

TECH = "bounded model checking of the compiled real functions: Kani 0.68 / CBMC 6.11 / CaDiCaL over kani::any() inputs"
COMMON_NOTE = (
    " Trusted base: rustc MIR -> Kani -> CBMC -> CaDiCaL; Kani's models of alloc/atomics/Mutex (sequential); "
    "dev-profile semantics (overflow checks on). Stubs: `tracing` facade = no-op shim in solver runs "
    "(real tracing in native replays). Every verdict is bounded by the unwind/size bounds listed per query in the "
    "evidence file; unwinding assertions are on; time-out/OOM/compile failure/unsatisfied vacuity witness = exit 2, "
    "never a pass. Counterexamples are replayed natively (cargo kani playback) before a VIOLATION line is printed."
)

# property -> claim
ASYNC = ("the tokio task itself (tokio::select!, mpsc::recv, timers) cannot be compiled by Kani 0.68 (ICE on thread-locals) "
         "or executed (no runtime)")
CLAIMS = {
    "C01": {
        "text": "Bounded model checking of the real server path Request::parse -> Request::get_reply -> FrameWriter "
                "(MBAP and RTU) against a reference Modbus server written from the protocol document: byte-exact reply "
                "(tx/unit echo, length, LSB-first bits, big-endian registers, echoed writes, handler-raised exception), "
                "request validity for EVERY payload of 0..252 bytes (lengths, ranges, coil values, the 2000/125 read limits, the "
                "1968-coil write limit; more than 123 registers cannot be framed in 253 bytes and is rejected by length), "
                "the 256-entry function-code table and all exception frames. Reply construction is bounded by quantity "
                "(<=16 bits, <=6 registers, <=2 data bytes of coils, <=3 written registers in the quick tier). The writer "
                "buffer is arbitrary residue, so each query is one step from an arbitrary writer state (sequences). "
                "QUICK tier = these kernels only. Whole-session behaviour (one reply per addressed request, silence otherwise) is "
                "decided by the glue harnesses that execute SessionTask::handle_frame whole with MAX_ADU_LENGTH=13 (hook H3); for "
                "C01 they run in the THOROUGH tier (they are the quick tier of C17 and C08).",
        "note": "Not decided: live TCP/pty sessions; larger quantities than the stated bounds (the limits themselves are "
                "decided for all payload sizes by the parse-validity queries). Byte-count field of write-multiple requests "
                "is a don't-care when the payload length is right (the property lists 'wrong length for its quantity').",
        "design": "DESIGN.md 5.1",
    },
    "C02": {
        "text": "Same kernel queries as C01 with an instrumented handler: a read queries exactly start, start+1, .. in order, "
                "once each, stopping at the first exception; a write invokes the matching write handler exactly once with the "
                "decoded range/index and values (symbolic probe of every item of the lazy iterator); a request rejected by the "
                "parser invokes nothing. THOROUGH tier adds the whole-session glue queries: unknown-function, empty, wrong-unit "
                "and denied requests invoke nothing (those queries are the quick tier of C17 and C08).",
        "note": "Bounds as C01. Handler functions are modelled as deterministic symbolic tables that do not panic.",
        "design": "DESIGN.md 5.2",
    },
    "C03": {
        "text": "AddressRange::try_from for all 2^32 arguments, read limits for all counts, and FrameWriter::format_request "
                "for all eight request kinds (MBAP and RTU) against a reference encoder: tx id, protocol id, length, unit, "
                "function, big-endian fields, LSB-first coil packing, byte count, CRC. Write-multiple limits and the "
                "maximum frame size are decided at the boundary counts with concrete-valued vectors (123/124 registers in "
                "the quick tier; 1969 coils is rejected before serialisation).",
        "note": "'Rejected => nothing transmitted' is decided where bytes are produced: format_request returns Err instead "
                "of a frame and execute_request only writes what it returned; the task-level statement is async (" + ASYNC + "). "
                "NOT decided: that exactly 1968 coils is ACCEPTED (the query unrolls ~2000 iterations over heap data and never "
                "completed in > 50 min; kept unregistered). Vector lengths other than the boundary points and 1/3/9/17 values are outside.",
        "design": "DESIGN.md 5.3",
    },
    "C04": {
        "text": "Client reply handling against a reference classifier. (a) Request::handle_response / get_error_for / "
                "SingleWrite / MultipleWriteRequest for the four write kinds with EVERY reply PDU of 0..7 bytes: success iff "
                "function code, exact length and echo match; [fc|0x80, code] yields exactly Exception(code) for all 256 codes; "
                "every other reply is a non-exception error; exactly-one completion incl. the caller's fail(). This also "
                "decides the function-code/exception dispatch, which does not depend on the request kind. (b) Read replies are "
                "decided one layer down, on ReadBits::handle_response / ReadRegisters::handle_response with the reply body: "
                "exact-length rule, item count, item addresses from the start address, one completion; registers also by "
                "value (big endian). (c) BitIterator/RegisterIterator::next from an ARBITRARY (range, position): address and "
                "value (LSB-first bit / big-endian register) of every item. (d) the oneshot (future-style) promise flavour.",
        "note": "Bounds actually decided: writes - all replies <= 7 bytes; register reads - count 1..3, body <= 8 bytes; BIT reads - "
                "count 1..2, body <= 3 bytes only (never crosses a byte boundary): 9 bits / 4 bytes ran out of 30 GB in the solver "
                "three times; bit VALUES for all positions come from the iterator step lemma (c), not from the reply harness. "
                "Read requests are not wrapped in Request/RequestDetails and are mem::forget-ed: dropping a Request reaches the "
                "tokio oneshot sender's drop glue and made even a 2-bit query intractable. Byte-count field of read replies is a "
                "don't-care (the property states 'exactly the length implied by the request').",
        "design": "DESIGN.md 5.4",
    },
    "C05": {
        "text": "MbapParser::parse from an ARBITRARY ReadBuffer state (any offset in the 260-byte array, arbitrary residue) for "
                "every stream of <=12 bytes and every split point of its delivery, against a reference framer: need-more / error "
                "(protocol id, length 0, length > 254) / frame with exact consumption and parser reset; the 254/255 boundary with "
                "a full 260-byte buffer; ReadBuffer::read_some as ONE STEP FROM AN ARBITRARY STATE over the in-memory transport "
                "(content preserved in order, compaction at the end of the array, appended bytes in arrival order, progress, one "
                "transport read per call); the buffer accessors from an arbitrary state.",
        "note": "The parser step and the read step are inductive (arbitrary state) and carry the argument to streams of any length. "
                "No END-TO-END query exists: FramedReader::next_frame with a solver-chosen chunk size at every read ran out of memory "
                "at 10-byte streams and timed out at 40 min / 24 GB at 8 bytes (kept unregistered), so chunking-independence of "
                "whole streams rests on composing those two steps, which is an argument and not a solver verdict. Quick tier: "
                "parser at buffer offset 0 (300 s); every offset of the 260-byte array in the thorough tier (650-980 s). TLS "
                "delivers the same byte stream through the same reader and is outside.",
        "design": "DESIGN.md 5.5",
    },
    "C06": {
        "text": "CRC implementation, TRANSMIT side, and the RECEIVE side at call-site-constant frame lengths. The crc crate's "
                "table step equals the bit-wise CRC-16/MODBUS step for all 2^24 (state, byte) pairs (covers every frame length by "
                "induction); rodbus's CRC constant, init value and BOTH code paths (checksum used on transmit, "
                "digest/update/finalize used on receive) equal the fold of that step; every RTU reply built by the C01 kernels and "
                "every RTU request built by the C03 encoders ends with that CRC, low byte first; the 256-byte limit on emitted "
                "frames is decided by C03's limit queries. Receive side: RtuParser::length_mode equals the protocol's length table "
                "for all 256 function codes in both directions (exception bit honoured for replies only); (real RtuParser::parse, recursion included, over a "
                "260-byte buffer whose residue is arbitrary): a complete 8-byte request (function 6) is handed on iff BOTH CRC "
                "bytes verify, with destination (0 = broadcast), PDU bytes and consumption exact, for every address, body, "
                "trailer and decode level. Thorough adds: the same frame delivered as 1+7 bytes (never acted on while incomplete, at "
                "most the address byte consumed), a 10-byte write-multiple-coils request delivered whole (all three parser "
                "states in one call; address 0 stays broadcast), a 7-byte read reply delivered whole and an exception reply in the "
                "response direction (byte count at offset 1, exception bit honoured for replies only), unknown function "
                "codes and the oversized-PDU refusal; and the generator-polynomial lemma (1-bit, 2-bit within 256 bytes, bursts <= 16 "
                "bits are detectable by this CRC).",
        "note": "The receive-side queries fix every LENGTH per call site (function code, byte count, delivered prefix); address, "
                "data, CRC trailer and buffer residue are symbolic. Six earlier formulations with a symbolic delivered length "
                "all died at 30-41 GB (kept unregistered, zz06_*): the early 'return Ok(None)' guards the state assignment, the "
                "state discriminant becomes symbolic and the recursive parse() is unwound through all three arms. NOT decided: "
                "frame lengths, byte counts and split points other than the listed ones (frames longer than 10 bytes; the 6+5 "
                "split of a write-multiple request ran out of memory at 34 GB, so a byte count taken from stale buffer contents "
                "- seeded change C06-2 - is still missed; read-reply, write-echo and inside-the-CRC splits were written but not "
                "observed passing in time and are unregistered), buffer offsets other than 0 (accessor offset-independence is C05's c05_buffer_accessors), the "
                "256-byte maximum on receive beyond the 'PDU > 253 is refused' exit. Each receive query costs 7-8 min and "
                "10-25 GB, mostly CBMC's propositional conversion of the 253-byte frame and 260-byte buffer. Serial driver outside.",
        "design": "DESIGN.md 5.6",
    },
    "C07": {
        "text": "Kani's built-in checks (arithmetic overflow with dev-profile semantics, out-of-bounds, unwrap/expect, "
                "unreachable, division by zero) over the kernel queries whose input is peer-controlled bytes (C01 request "
                "parsing and replies, C04 write replies, C05 parser / buffer steps, the iterators from every validated state; "
                "the quick tier runs a representative subset, the thorough tier all of them). A failing built-in check inside repository "
                "code in any of those queries is attributed to C07.",
        "note": "Not decided: 'the task and its other sessions remain usable' and shutdown responsiveness (" + ASYNC + "). "
                "Display/Loggable bodies behind tracing macros are not executed (tracing is a no-op shim in solver runs).",
        "design": "DESIGN.md 5.7",
    },
    "C08": {
        "text": "AuthorizationType::is_authorized / check_authorization for all eight request kinds x every unit/range/index x "
                "all 256 allow/deny policies: exactly one callback, of the request's own kind, with its unit id, range/index "
                "and the session role; answer returned unchanged; no handler => Allow without a callback. "
                "ReadOnlyAuthorizationHandler and the trait's default-deny for all arguments. Glue (handle_frame whole): deny => "
                "zero point-handler calls and exception 01; allow => exactly the behaviour without authorization (configured and "
                "unconfigured unit ids).",
        "note": "'The decision is taken per request - an earlier allow never carries over' is decided ONLY in the thorough tier: "
                "c08_glue_decision_per_request (two requests on one session, opposite decisions) passes on the clean tree but needs "
                "40 min and 36.6 GB resident, so thorough glue queries run one at a time under a 56 GB cap. Against the seeded "
                "carry-over bug it yields a solver counterexample on exactly that mechanism, but Kani's trace-producing re-run "
                "cannot generate the native replay within memory, so the check reports INCONCLUSIVE (exit 2), not a VIOLATION. "
                "The quick tier does not see such a bug at all. Role extraction from the certificate is "
                "C09 territory (outside). Glue runs with MAX_ADU_LENGTH=13 (hook H3) and write-single-register requests.",
        "design": "DESIGN.md 5.8",
    },
    "C09": {
        "text": "From<MinTlsVersion> for ProtocolVersions, exhaustively: minimum 1.2 enables {1.2, 1.3}, minimum 1.3 enables "
                "{1.3} only.",
        "note": "ONLY the version table. Handshake acceptance, certificate modes, validity periods, role extension and 'no "
                "Modbus byte before the handshake succeeds' depend on rustls/webpki/ring/rx509 and sockets: not encodable.",
        "design": "DESIGN.md 5.9",
    },
    "C10": {
        "text": "Exactly-once completion of the five promise types under every sequence of <=3 success/failure attempts "
                "followed by drop (first wins, none => Shutdown); handle_response never completes a request it rejects and the "
                "caller's single fail() completes it once with the error that occurred (the four write kinds, from the C04 "
                "reply queries); oneshot flavour; send/recv errors on a dead task map to Shutdown; which errors end a session.",
        "note": "NOT decided: interleavings of replies, deadlines, enable/disable, shutdown, handle drops and task abort (" + ASYNC + ").",
        "design": "DESIGN.md 5.10",
    },
    "C11": {
        "text": "TxId::next from an ARBITRARY state: returns the old value, advances by one modulo 2^16, consecutive ids "
                "differ (inductive: any number of requests incl. the wrap). The C03 encoders decide that the id is stamped "
                "big-endian at offset 0 of every MBAP request.",
        "note": "NOT decided: the discard-on-mismatch receive loop and the idle-state reader (" + ASYNC + ").",
        "design": "DESIGN.md 5.11",
    },
    "C12": {
        "text": "TimeoutCounter: every outcome script of length 6 (12 thorough) for N in 1..4 (8) or none: MaxTimeouts(N) at "
                "exactly the N-th consecutive timeout, any other outcome restarts the count, no limit never drops; one step "
                "from an arbitrary (current, max) state incl. saturation; SessionError::from_request_err (timeouts, exceptions "
                "and bad replies leave the connection usable).",
        "note": "NOT decided: deadline exactness and which request outcomes feed the counter (run_one_request after select!: " + ASYNC + ").",
        "design": "DESIGN.md 5.12",
    },
    "C14": {
        "text": "doubling_retry_strategy through Box<dyn RetryStrategy>: every call script of length 5 (10 thorough) over "
                "{failed connect, disconnect, reset} with symbolic whole-second min <= max: k-th consecutive failure waits "
                "min(min*2^(k-1), max), disconnect waits min, reset restarts; one doubling step from an arbitrary state over "
                "the full u64-second range (no overflow).",
        "note": "Assumes the documented precondition min <= max. Sub-second durations outside (div by 10^9 does not terminate "
                "in the bit-blaster). Use of the strategy by the client / RTU-server tasks is async: outside.",
        "design": "DESIGN.md 5.14",
    },
    "C16": {
        "text": "WildcardIPv4::matches for all patterns x all 2^32 IPv4 and all IPv6 addresses; AddressFilter::matches for "
                "Any / Exact / WildcardIpv4; get_byte (one field of the wildcard parser) for all ASCII strings of <=4 bytes "
                "against a reference of '*' or u8::from_str syntax.",
        "note": "NOT decided: the split/arity logic of from_str on whole strings (tried with concrete dot positions: ten shapes "
                "timed out at 900 s, two shapes ran out of memory after 433 s of symex - e.g. an accepted trailing dot is not "
                "detected), AnyOf(HashSet), the C-ABI filter parser, that the accept loop consults "
                "the filter before TLS/Modbus in every variant and that every constructor forwards it (async constructors; "
                "observation O1 in DESIGN.md).",
        "design": "DESIGN.md 5.16",
    },
    "C17": {
        "text": "SessionTask::handle_frame executed WHOLE over the in-memory transport (MAX_ADU_LENGTH=13, hook H3), one fixed "
                "function code per query, EVERY unit id 0..255 against a one-unit map: a valid write, a malformed request, an "
                "unsupported function and an empty frame are answered iff addressed to the configured unit and nothing is written "
                "otherwise; on RTU a broadcast read (valid or malformed) is ignored and nothing is transmitted. "
                "Thorough adds a malformed request and two more unsupported function codes for every unit id.",
        "note": "The glue harnesses construct the Broadcast destination themselves; that the RTU parser maps address 0 to Broadcast "
                "(also through the intermediate variable-length state) is decided by C06's receive-side queries "
                "(c06_rtu_recv_*, which C17's THOROUGH tier re-runs). Function codes are fixed per query "
                "(write single register/coil, read holding registers, 0x2B as unsupported representative; full tables in C01). "
                "Each glue query needs 10-36 GB and 5-16 minutes; they run at most 4 at a time, so the quick check takes ~16 min. "
                "NOT decided: the broadcast-WRITE fan-out ('applied exactly once to every configured unit, never answered'). Its "
                "query never completed: out of memory at 36 GB, 'CBMC failed' after 22 min, and - slimmed, alone on the machine - "
                "54.8 GB resident and dead after 23 min; it is kept unregistered and the seeded change that stops the fan-out at "
                "the first rejecting unit is missed. Short frames (hook H3); pty sessions outside.",
        "design": "DESIGN.md 5.17",
    },
    "C18": {
        "text": "rodbus-ffi compiled by Kani: WriteResult::convert_to_result for every value; the four RequestHandlerWrapper "
                "write methods with an extern \"C\" callback returning a solver-chosen WriteResult (and with the callback "
                "absent): the client receives exactly the application's result and the callback receives the index/value/"
                "start/items sent; RequestError / ExceptionCode (all 256) / DecodeLevel (36) / AddressRange / BitValue / "
                "RegisterValue / Authorization conversions to their same-named counterparts.",
        "note": "NOT decided: entry points that need a live Runtime (channel creation, block_on), completion-callback "
                "exactly-once through sfio_promise, queue-full/shutdown conditions, client state conversions.",
        "design": "DESIGN.md 5.18",
    },
    "C20": {
        "text": "Every C01, C03, C04 and C05 kernel query takes a SYMBOLIC DecodeLevel (all 36) and is compared with a "
                "level-independent reference (the whole-session glue queries use a fixed level to fit memory), so any influence of the level on bytes, results or handler calls is a "
                "counterexample. Frame conditions: SessionTask::apply_command(ChangeDecoding) and "
                "ClientLoop::change_setting(DecodeLevel) change nothing but the level (enabled flag, tx id, timeout counter "
                "untouched).",
        "note": "tracing is a no-op shim in solver runs, so formatter bodies are not executed (they take &self). NOT decided: "
                "that a level change never reorders an outstanding transaction and the two execution paths of "
                "run_one_request (" + ASYNC + ").",
        "design": "DESIGN.md 5.20",
    },
}
for _c in CLAIMS.values():
    _c["note"] = _c["note"] + COMMON_NOTE

NOT_APPLICABLE = {
    "C19": "tried and intractable: the map semantics need a real std HashMap (hashbrown RawTable + SipHash); four formulations "
           "(2-3 operations, symbolic and concrete indices, unwind 4/5/6) either fail hashbrown's unwinding assertion or time out "
           "at 30 min without a result (harness kept unregistered in harness/ffi/ffi_server.rs); the atomicity clause is a "
           "thread-schedule property and Kani is sequential",
    "C13": "every clause is about the tokio task's state path (TcpChannelTask::run_inner/try_connect_and_run, sockets, "
           "timers, listener awaits); Kani 0.68 can neither compile (ICE on thread-locals reached by select!/recv/time) "
           "nor execute it (no runtime) and there is no synchronous kernel that carries the property",
    "C15": "tried and intractable: the only synchronous kernel (SessionTracker over BTreeMap<u128, mpsc::Sender>) did not finish "
           "within 30 min per query and a 2-connection variant ran out of memory (BTreeMap node handling + tokio channel "
           "internals; harness kept unregistered in harness/rodbus/tcp_server.rs); isolation between sessions and shutdown are "
           "tokio-task properties that Kani can neither compile nor execute",
}

ALL = [f"C{n:02d}" for n in range(1, 21)]
PENDING = "check not yet built in this revision of /verif (kernel harnesses are being added property by property)"


def main():
    checks = []
    for pid in ALL:
        if pid not in CLAIMS:
            continue
        c = CLAIMS[pid]
        checks.append({
            "property_id": pid,
            "quick_cmd": f"./check {pid} --tier quick",
            "thorough_cmd": f"./check {pid} --tier thorough",
            "evidence_file": f"/verif/evidence/{pid}.json",
            "replay_cmd_template": f"./check {pid} --replay {{path}}",
            "engine": "kani",
            "level_claimed": {"category": "model_checking", "text": c["text"], "design_ref": c["design"]},
            "level_note": c["note"],
            "technique": c.get("technique", TECH),
        })
    na = []
    for pid in ALL:
        if pid in CLAIMS:
            continue
        na.append({"property_id": pid, "reason": NOT_APPLICABLE.get(pid, PENDING)})
    hooks_file = os.path.join(VERIF, "hooks.json")
    hooks = {
        "guard": "cfg(kani)",
        "enable": "set automatically by `cargo kani` (rustc --cfg kani); ordinary cargo build/test never sees hook code",
        "baseline_off_cmd": "cd /repo && cargo nextest run --workspace --no-fail-fast --test-threads 8 --offline || "
                            "(cd /repo && cargo test --workspace --no-fail-fast --offline)",
        "source_commits": ["b75eae9", "4477b38"],
        "add_only": True,
        "notes": "H1 (b75eae9): cfg(kani) in-memory transport PhysLayerImpl::Verif + VerifIo; the three real-I/O match arms of "
                 "PhysLayer::read/write get an added #[cfg(not(kani))] line. H2/H3 (4477b38): check-cfg lint entry; "
                 "MAX_ADU_LENGTH = 13 under cfg(all(kani, verif_small_frames)) (an added #[cfg(not(..))] line above the "
                 "existing constant). Harness modules are attached in a scratch copy, never in /repo.",
    }
    if os.path.exists(hooks_file):
        with open(hooks_file) as f:
            hooks.update(json.load(f))
    m = {
        "version": 1,
        "setup_cmd": "./check --setup",
        "hooks": hooks,
        "engines": [
            {"name": "kani", "path": "/verif/check",
             "serves_properties": [c["property_id"] for c in checks],
             "kind_free_text": "Kani 0.68 proof harnesses (in /verif/harness) woven as child modules into a scratch copy "
                               "of /repo's working tree; CBMC 6.11 + CaDiCaL decide; counterexamples replayed natively"},
        ],
        "checks": checks,
        "not_applicable": na,
        "notes": "All checks are solver-based (bounded model checking of the real code). Exit 2 = inconclusive. "
                 "See DESIGN.md for bounds, stubs and what lies outside each claim.",
    }
    with open(os.path.join(VERIF, "MANIFEST.json"), "w") as f:
        json.dump(m, f, indent=1)
    print(f"MANIFEST.json: {len(checks)} checks, {len(na)} not_applicable")


if __name__ == "__main__":
    sys.exit(main())
