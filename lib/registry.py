"""Harness registry: metadata lives next to each harness as `//@ key: value` comment lines
directly above `#[kani::proof]`.

    //@ props: C01 C02 C20      properties whose check runs this harness (first = primary)
    //@ tier: quick|thorough    (default quick; quick harnesses also run in the thorough tier)
    //@ timeout: 600            per-harness wall limit in seconds
    //@ fns: a::b, c::d         real functions executed symbolically
    //@ bounds: ...             stated bounds (unwind, sizes)
    //@ outside: ...            what lies outside the bounds
    //@ stubs: ...              stubs/assumptions that are part of the claim
    //@ peer: yes               input is peer-controlled bytes => built-in check failures count for C07
    //@ heavy: yes              needs > 10 GB / minutes of conversion: run at most 3 queries at a time
"""
import os
import re

from weave import VERIF, HOSTS, harness_file


class Harness:
    def __init__(self, name, engine, module, line, meta):
        self.name = name
        self.engine = engine
        self.module = module
        self.line = line
        # "C07~" = serves C07 only in the thorough tier (keeps the quick tier of the cross-cutting properties short)
        toks = meta.get("props", "").split()
        self.props = [t.rstrip("~") for t in toks]
        self.thorough_only_for = {t.rstrip("~") for t in toks if t.endswith("~")}
        self.tier = meta.get("tier", "quick").strip()
        self.timeout = int(meta.get("timeout", "0") or 0)
        self.fns = [x.strip() for x in meta.get("fns", "").split(",") if x.strip()]
        self.bounds = meta.get("bounds", "").strip()
        self.outside = meta.get("outside", "").strip()
        self.stubs = meta.get("stubs", "").strip()
        self.peer = meta.get("peer", "no").strip().lower() in ("yes", "true", "1")
        self.desc = meta.get("desc", "").strip()
        # heavy: passes alone but dies (memory) next to many others => the runner lowers the job count
        self.heavy = meta.get("heavy", "no").strip().lower() in ("yes", "true", "1")

    @property
    def primary(self):
        return self.props[0] if self.props else None


def load():
    out = []
    for engine, hosts in HOSTS.items():
        for mod in hosts:
            path = harness_file(engine, mod)
            if engine == "small" and mod == "support":
                continue
            if not os.path.exists(path):
                continue
            with open(path) as f:
                lines = f.read().split("\n")
            meta = {}
            pending = False
            for i, ln in enumerate(lines):
                s = ln.strip()
                m = re.match(r"//@\s*(\w+)\s*:\s*(.*)$", s)
                if m:
                    k, v = m.group(1), m.group(2)
                    meta[k] = (meta[k] + " " + v) if k in meta and k not in ("props", "tier", "timeout", "peer", "heavy") else v
                    continue
                if s.startswith("#[kani::proof"):
                    pending = True
                    continue
                if pending:
                    m = re.match(r"(?:pub(?:\([a-z]+\))?\s+)?fn\s+(\w+)\s*\(", s)
                    if m:
                        out.append(Harness(m.group(1), engine, mod, i + 1, meta))
                        meta = {}
                        pending = False
                    elif s.startswith("#[") or s.startswith("//") or s == "":
                        continue
                    else:
                        pending = False
                        meta = {}
                elif s and not s.startswith("#[") and not s.startswith("///") and not s.startswith("//"):
                    # any other code line resets pending metadata
                    if meta and not s.startswith("#["):
                        meta = {}
    names = [h.name for h in out]
    dup = {n for n in names if names.count(n) > 1}
    if dup:
        raise RuntimeError(f"duplicate harness names: {sorted(dup)}")
    return out


def for_property(pid, tier):
    hs = [h for h in load() if pid in h.props]
    if tier == "quick":
        hs = [h for h in hs if h.tier == "quick" and pid not in h.thorough_only_for]
    return hs
