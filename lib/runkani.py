"""Run Kani on a set of harnesses, classify every check, replay counterexamples, write evidence."""
import json
import os
import re
import shutil
import subprocess
import time

import weave
from weave import VERIF, WORK, PACKAGE

KANI_ENV = {
    "CARGO_NET_OFFLINE": "true",
    "CARGO_TERM_COLOR": "never",
}

MEM_KB = int(os.environ.get("VERIF_MEM_GB", "20")) * 1024 * 1024
JOBS = int(os.environ.get("VERIF_JOBS", "0")) or min(10, os.cpu_count() or 4)


def _env(engine=None):
    e = dict(os.environ)
    e.update(KANI_ENV)
    # never inherit a cargo target dir or RUSTFLAGS from the caller
    for k in ("CARGO_TARGET_DIR", "RUSTFLAGS", "CARGO_BUILD_TARGET_DIR", "CARGO_ENCODED_RUSTFLAGS"):
        e.pop(k, None)
    if engine in weave.RUSTFLAGS:
        e["RUSTFLAGS"] = weave.RUSTFLAGS[engine]
    return e


def mem_for(engine):
    # whole-session glue (engine `small`) needs 10-30 GB per query
    if engine == "small":
        return max(MEM_KB, 56 * 1024 * 1024)
    return MEM_KB


def seed_target(engine, target):
    """copy the warmed dependency build of the base tree (if any) so a first run does not rebuild deps"""
    if os.path.exists(target):
        return
    base = os.path.join(weave.workdir(engine, "base"), "target")
    if os.path.isdir(base):
        subprocess.run(["cp", "-a", base, target], check=False)


def kani_cmd(engine, target, harnesses, timeout_s, json_out, jobs, extra=()):
    cmd = ["cargo", "kani", "-p", PACKAGE[engine], "-Z", "stubbing", "-Z", "unstable-options"]
    for h in harnesses:
        cmd += ["--harness", h]
    cmd += ["--exact"] if False else []
    cmd += ["-j", str(jobs), "--output-format", "terse", "--harness-timeout", f"{timeout_s}s",
            "--export-json", json_out, "--target-dir", target]
    cmd += list(extra)
    return cmd


def run_kani(engine, tag, tier, hs, log_path, overall_timeout):
    """returns dict: harness name -> result dict"""
    src, target, attached = weave.weave(engine, tag, tier)
    seed_target(engine, target)
    json_out = os.path.join(weave.workdir(engine, tag), "result.json")
    if os.path.exists(json_out):
        os.remove(json_out)
    per = max([h.timeout for h in hs if h.timeout] + [300 if tier == "quick" else (60 if tier == "dev" else 1800)])
    jobs = max(1, min(JOBS, len(hs)))
    mem_kb = MEM_KB
    if any(getattr(h, "heavy", False) for h in hs) and not os.environ.get("VERIF_JOBS"):
        # measured: 17-24 GB resident for the client read-reply queries (the Oneshot/collect arm is explored too)
        jobs = min(jobs, 3)
        mem_kb = max(mem_kb, 30 * 1024 * 1024)
    if engine == "small" and not os.environ.get("VERIF_JOBS"):
        # whole-session glue: 10-20 GB per quick query (4 at a time, 36 GB cap each).
        # Thorough-only glue queries are far bigger (measured: the two-request authorization query peaks at 36.6 GB and
        # takes 40 min; it passes only with the machine to itself) => one at a time, 56 GB cap.
        if tier == "thorough":
            jobs = 1
            mem_kb = max(MEM_KB, 56 * 1024 * 1024)
        else:
            jobs = max(1, min(4, len(hs)))
            mem_kb = max(MEM_KB, 36 * 1024 * 1024)
    # harness filters are substring matches: make them unambiguous by anchoring on the module path
    filters = [f"verif_{h.module}::{h.name}" for h in hs]
    cmd = kani_cmd(engine, target, filters, per, json_out, jobs)
    shell = f"ulimit -v {mem_kb}; exec " + " ".join(_q(c) for c in cmd)
    t0 = time.time()
    with open(log_path, "w") as lf:
        lf.write("$ " + shell + "\n")
        lf.flush()
        try:
            p = subprocess.run(["bash", "-c", shell], cwd=src, env=_env(engine), stdout=lf, stderr=subprocess.STDOUT,
                               timeout=overall_timeout)
            rc = p.returncode
        except subprocess.TimeoutExpired:
            rc = -9
            subprocess.run(["pkill", "-9", "-f", target], check=False)
    wall = time.time() - t0
    results = {h.name: {"status": "missing", "checks": [], "reason": "no result produced"} for h in hs}
    with open(log_path) as lf:
        log = lf.read()
    if re.search(r"(?m)^error(\[E\d+\])?:", log) and not os.path.exists(json_out):
        for r in results.values():
            r["status"] = "build_error"
            r["reason"] = "the harness crate did not compile against this tree (see log)"
        return results, wall, rc
    data = None
    if os.path.exists(json_out):
        try:
            with open(json_out) as f:
                data = json.load(f)
        except Exception as ex:  # truncated file
            data = None
    if data:
        stats = {c["harness_id"]: c for c in data.get("cbmc", [])}
        counts = {c["harness_id"]: c["property_details"] for c in data.get("property_details", [])}
        errs = {c["harness_id"]: c for c in data.get("error_details", [])}
        for r in data.get("verification_results", {}).get("results", []):
            hid = r["harness_id"]
            name = hid.split("::")[-1]
            if name not in results:
                continue
            res = results[name]
            res["harness_id"] = hid
            res["kani_status"] = r.get("status")
            res["duration_ms"] = r.get("duration_ms")
            res["checks"] = r.get("checks", [])
            res["counts"] = counts.get(hid, {})
            res["cbmc_stats"] = stats.get(hid, {}).get("cbmc_stats", {})
            res["error"] = errs.get(hid, {})
            res["status"] = "ran"
            res["reason"] = ""
    # fallback: the kani driver can panic after a harness time-out and then writes no JSON; the terse log
    # still holds one result block per harness
    parsed = parse_terse_log(log)
    for name, res in results.items():
        if res["status"] == "ran" and res["checks"]:
            continue
        blk = parsed.get(name)
        if not blk:
            continue
        if blk["verdict"] == "SUCCESSFUL":
            res.update(status="ran", reason="", kani_status="Success", from_log=True)
            res["checks"] = ([{"status": "Success", "category": "assertion", "description": f"{blk['total']} checks (from terse log)",
                               "function": "", "location": {}}]
                             + [{"status": "Satisfied", "category": "cover", "description": "cover (from terse log)", "function": "verif_", "location": {"file": "/harness/"}}] * blk["cov_sat"]
                             + [{"status": "Unsatisfiable", "category": "cover", "description": "cover (from terse log)", "function": "verif_", "location": {"file": "/harness/"}}] * (blk["cov_total"] - blk["cov_sat"]))
            res["duration_ms"] = blk.get("time_ms")
        elif blk["failed"]:
            res.update(status="ran", reason="", kani_status="Failure", from_log=True)
            res["checks"] = [{"status": "Failure", "category": "assertion", "description": d, "function": fn,
                              "location": {"file": f, "line": ln}} for (d, f, ln, fn) in blk["failed"]]
            res["duration_ms"] = blk.get("time_ms")
        else:
            res["status"] = "no_checks"
            res["reason"] = blk.get("note") or "kani reported FAILED without a failed check (out of memory / solver error)"
    # anything that produced no per-check list is inconclusive: find out why from the log
    for name, res in results.items():
        if res["status"] == "ran" and not res["checks"]:
            res["status"] = "no_checks"
            et = res.get("error", {}).get("error_type") or res.get("error", {}).get("exit_status") or ""
            res["reason"] = f"kani reported no checks ({et or res.get('kani_status')}): timeout, out of memory or CBMC error"
    return results, wall, rc


def parse_terse_log(log):
    """harness name -> {verdict, total, failed:[(desc,file,line,fn)], cov_sat, cov_total, note, time_ms}"""
    cur = {}
    out = {}
    blocks = re.split(r"(?m)^Thread (\d+): ", log)
    # blocks = [pre, tid, text, tid, text, ...]
    for i in range(1, len(blocks) - 1, 2):
        tid, text = blocks[i], blocks[i + 1]
        m = re.match(r"Checking harness (\S+?)\.\.\.", text)
        if m:
            cur[tid] = m.group(1).split("::")[-1]
            continue
        name = cur.get(tid)
        if not name:
            continue
        b = {"verdict": None, "total": 0, "failed": [], "cov_sat": 0, "cov_total": 0, "note": "", "time_ms": None}
        m = re.search(r"VERIFICATION:- (\w+)", text)
        if m:
            b["verdict"] = m.group(1)
        m = re.search(r"\*\* (\d+) of (\d+) failed", text)
        if m:
            b["total"] = int(m.group(2))
        m = re.search(r"\*\* (\d+) of (\d+) cover properties satisfied", text)
        if m:
            b["cov_sat"], b["cov_total"] = int(m.group(1)), int(m.group(2))
        for fm in re.finditer(r'Failed Checks: (.*)\n File: "([^"]*)", line (\d+), in (\S+)', text):
            b["failed"].append((fm.group(1).strip(), fm.group(2), fm.group(3), fm.group(4)))
        if "timed out" in text:
            b["note"] = "CBMC timed out"
        elif "out of memory" in text:
            b["note"] = "CBMC ran out of memory"
        elif "CBMC failed" in text:
            b["note"] = "CBMC failed"
        m = re.search(r"Verification Time: ([\d.]+)s", text)
        if m:
            b["time_ms"] = int(float(m.group(1)) * 1000)
        out[name] = b
    return out


def _q(s):
    if re.match(r"^[\w@%+=:,./-]+$", s):
        return s
    return "'" + s.replace("'", "'\\''") + "'"


# ---------------------------------------------------------------------------------------------
# classification


def in_harness_code(chk):
    f = (chk.get("location") or {}).get("file") or ""
    fn = chk.get("function") or ""
    return "/harness/" in f or "::verif_" in fn or fn.startswith("verif_")


def classify(h, res):
    """returns (verdict, failures, covers)
    verdict: 'pass' | 'fail' | 'inconclusive'
    failures: list of dict(prop, function, description, location, builtin)
    """
    if res["status"] != "ran":
        return "inconclusive", [], (0, 0), res["reason"]
    checks = res["checks"]
    failures = []
    unwinding = False
    undetermined = 0
    cov_sat = 0
    cov_total = 0
    cov_unsat = []
    for c in checks:
        st = c.get("status")
        cat = c.get("category")
        desc = (c.get("description") or "").strip()
        if cat == "cover":
            cov_total += 1
            if st in ("Satisfied", "SATISFIED"):
                cov_sat += 1
            else:
                cov_unsat.append(f"{desc} [{st}]")
            continue
        if st in ("Failure", "FAILURE"):
            if "unwinding assertion" in desc or cat == "unwind":
                unwinding = True
                continue
            m = re.match(r'^"?\[(C\d+)\]', desc)
            builtin = not in_harness_code(c)
            if m:
                prop = m.group(1)
            elif builtin and h.peer:
                prop = "C07"
            else:
                prop = h.primary
            failures.append({
                "prop": prop,
                "harness": h.name,
                "function": c.get("function"),
                "description": desc.strip('"'),
                "location": c.get("location"),
                "category": cat,
                "builtin": builtin,
            })
        elif st in ("Undetermined", "UNDETERMINED"):
            undetermined += 1
    if unwinding:
        return "inconclusive", failures, (cov_sat, cov_total), "unwinding assertion failed: the stated bound is too small for this tree"
    if failures:
        return "fail", failures, (cov_sat, cov_total), ""
    if undetermined:
        return "inconclusive", [], (cov_sat, cov_total), f"{undetermined} checks undetermined"
    if cov_sat < cov_total:
        return "inconclusive", [], (cov_sat, cov_total), "vacuity witness not satisfied: " + "; ".join(cov_unsat[:4])
    if res.get("kani_status") not in ("Success", "SUCCESS"):
        return "inconclusive", [], (cov_sat, cov_total), f"kani status {res.get('kani_status')} without a failed check"
    return "pass", [], (cov_sat, cov_total), ""


# ---------------------------------------------------------------------------------------------
# replay


def playback(engine, tag, tier, h, replay_dir):
    """generate a concrete playback test for harness h, run it natively. returns (reproduced, path, detail)"""
    src, target, _ = weave.weave(engine, tag, tier)
    os.makedirs(replay_dir, exist_ok=True)
    log = os.path.join(weave.workdir(engine, tag), f"playback-{h.name}.log")
    cmd = ["cargo", "kani", "-p", PACKAGE[engine], "-Z", "stubbing", "-Z", "unstable-options", "-Z", "concrete-playback",
           "--concrete-playback=print", "--harness", f"verif_{h.module}::{h.name}",
           "--harness-timeout", f"{max(h.timeout, 1800)}s", "--target-dir", target]
    # the trace-producing re-run needs more memory than the query (measured: a 10-GB receive-side query passed 19 GB in
    # its replay run); replays run alone, so give them most of the machine
    shell = f"ulimit -v {max(mem_for(engine), 44 * 1024 * 1024)}; exec " + " ".join(_q(c) for c in cmd)
    with open(log, "w") as lf:
        subprocess.run(["bash", "-c", shell], cwd=src, env=_env(engine), stdout=lf, stderr=subprocess.STDOUT)
    with open(log) as lf:
        out = lf.read()
    tests = re.findall(r"```\n?(?:rust)?\n(.*?)```", out, re.S)
    tests = [t for t in tests if "kani_concrete_playback" in t]
    if not tests:
        return None, None, "kani produced no concrete playback test (see " + log + ")"
    path = os.path.join(replay_dir, h.name + ".rs")
    body = "\n".join(tests)
    with open(path, "w") as f:
        f.write(f"// concrete counterexample(s) for harness {h.name} (module verif_{h.module}, engine {engine})\n")
        f.write(f"// replay: ./check {h.primary} --replay {path}\n")
        f.write(body)
    ok, detail = run_playback(engine, tag, tier, h.module, path)
    return ok, path, detail


def run_playback(engine, tag, tier, module, path):
    """append the playback tests to a scratch copy of the harness module and execute them natively.
    returns (reproduced: bool|None, detail)"""
    src, target, _ = weave.weave(engine, tag, tier)
    with open(path) as f:
        tests = f.read()
    names = re.findall(r"fn\s+(kani_concrete_playback_\w+)", tests)
    if not names:
        return None, "no playback test in " + path
    # the host file in the scratch tree points at /verif/harness/...; repoint to a scratch copy + tests
    hfile = weave.harness_file(engine, module)
    scratch = os.path.join(weave.workdir(engine, tag), f"replay_{module}.rs")
    with open(hfile) as f:
        base = f.read()
    with open(scratch, "w") as f:
        f.write(base + "\n" + tests + "\n")
    host = os.path.join(src, weave.HOSTS[engine][module])
    with open(host) as f:
        txt = f.read()
    txt = txt.replace(f'#[path = "{hfile}"]', f'#[path = "{scratch}"]')
    with open(host, "w") as f:
        f.write(txt)
    results = {}
    detail = []
    for profile in ("dev", "release"):
        cmd = ["cargo", "kani", "playback", "-Z", "concrete-playback", "-p", PACKAGE[engine]]
        if profile == "release":
            # informational: the profile users run (overflow checks off)
            continue
        cmd += ["--", "kani_concrete_playback_"]
        log = os.path.join(weave.workdir(engine, tag), f"playback-run-{module}-{profile}.log")
        with open(log, "w") as lf:
            p = subprocess.run(cmd, cwd=src, env=_env(engine), stdout=lf, stderr=subprocess.STDOUT)
        with open(log) as lf:
            out = lf.read()
        m = re.search(r"test result: (\w+)\. (\d+) passed; (\d+) failed", out)
        if not m:
            results[profile] = None
            detail.append(f"{profile}: playback did not run (see {log})")
        else:
            failed = int(m.group(3)) > 0
            results[profile] = failed
            pm = re.search(r"panicked at (.*?):\n(.*)", out)
            detail.append(f"{profile}: {'FAILED (counterexample reproduces)' if failed else 'passed (does not reproduce)'}"
                          + (f" — {pm.group(1)}: {pm.group(2)[:200]}" if pm else ""))
    # restore the host file for later runs
    weave.weave(engine, tag, tier)
    # playback builds into <src>/target: remove it, it is large and never reused by verification runs
    shutil.rmtree(os.path.join(src, "target"), ignore_errors=True)
    return results.get("dev"), "; ".join(detail)
