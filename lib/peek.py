#!/usr/bin/env python3
"""summarise the (possibly still running) terse logs under the work dir"""
import glob, os, sys
sys.path.insert(0, os.path.dirname(os.path.abspath(__file__)))
import runkani, weave
pat = sys.argv[1] if len(sys.argv) > 1 else "*"
for lg in sorted(glob.glob(os.path.join(weave.WORK, f"{pat}.log"))):
    txt = open(lg).read()
    r = runkani.parse_terse_log(txt)
    started = [l.split("::")[-1].rstrip(".\n") for l in txt.split("\n") if "Checking harness" in l]
    print(os.path.basename(lg), f"{len(r)}/{len(started)} done")
    for k, v in r.items():
        if v["verdict"] != "SUCCESSFUL" or v["cov_sat"] < v["cov_total"]:
            print("   ", k, v["verdict"], v["failed"][:2], f"{v['cov_sat']}/{v['cov_total']}", v["note"], v["time_ms"])
    run = [s for s in started if s not in r]
    if run:
        print("    running:", run)
