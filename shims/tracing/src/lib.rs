//! no-op model of the `tracing` facade used only for solver runs
pub struct Span;

pub trait Instrument: Sized {
    fn instrument(self, _span: Span) -> Self {
        self
    }
}
impl<T: Sized> Instrument for T {}

#[macro_export]
macro_rules! __event {
    ($($arg:tt)*) => {{
        let _ = || { let _ = ::core::format_args!($($arg)*); };
    }};
}
#[macro_export]
macro_rules! trace { ($($arg:tt)*) => { $crate::__event!($($arg)*) }; }
#[macro_export]
macro_rules! debug { ($($arg:tt)*) => { $crate::__event!($($arg)*) }; }
#[macro_export]
macro_rules! info { ($($arg:tt)*) => { $crate::__event!($($arg)*) }; }
#[macro_export]
macro_rules! warn { ($($arg:tt)*) => { $crate::__event!($($arg)*) }; }
#[macro_export]
macro_rules! error { ($($arg:tt)*) => { $crate::__event!($($arg)*) }; }

#[macro_export]
macro_rules! info_span {
    ($name:expr) => {{ $crate::Span }};
    ($name:expr, $($k:tt = $sigil:tt $v:expr),* $(,)?) => {{
        $( let _ = || { let _ = &$v; }; )*
        $crate::Span
    }};
}
