#![allow(unused)]
use std::future::Future;
use std::pin::pin;
use std::task::{Context, Poll, Waker};

pub(crate) const WCAP: usize = 32;

pub(crate) struct VerifIo {
    pub(crate) written: [u8; WCAP],
    pub(crate) wlen: usize,
    pub(crate) writes: usize,
    pub(crate) fail_write: bool,
}

impl VerifIo {
    pub(crate) fn new() -> Self {
        Self { written: [0; WCAP], wlen: 0, writes: 0, fail_write: false }
    }
    pub(crate) fn read(&mut self, _buf: &mut [u8]) -> Result<usize, std::io::Error> {
        Ok(0)
    }
    pub(crate) fn write_all(&mut self, data: &[u8]) -> Result<(), std::io::Error> {
        if self.fail_write {
            return Err(std::io::Error::from(std::io::ErrorKind::BrokenPipe));
        }
        let n = data.len();
        assert!(self.wlen + n <= WCAP);
        // keep only a short prefix, byte by byte
        let mut i = 0;
        while i < n && i < 16 {
            self.written[self.wlen + i] = data[i];
            i += 1;
        }
        self.wlen += n;
        self.writes += 1;
        Ok(())
    }
}

pub(crate) fn block_on<F: Future>(f: F) -> F::Output {
    let mut f = pin!(f);
    let mut cx = Context::from_waker(Waker::noop());
    match f.as_mut().poll(&mut cx) {
        Poll::Ready(x) => x,
        Poll::Pending => {
            // the in-memory transport never pends
            panic!("future pended");
        }
    }
}
