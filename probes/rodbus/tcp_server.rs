#![allow(unused)]
use super::*;

#[kani::proof]
#[kani::unwind(14)]
fn c15_tracker() {
    let max: usize = kani::any();
    kani::assume(max <= 2);
    let mut t = SessionTracker::new(max);
    let limit = if max == 0 { 1 } else { max };
    let (tx, rx) = tokio::sync::mpsc::channel::<ServerCommand>(1);
    let mut last = None;
    for _ in 0..3 {
        let add: bool = kani::any();
        if add {
            let had = t.sessions.len();
            let oldest = t.sessions.keys().next().copied();
            let id = t.add(tx.clone());
            if let Some(l) = last { assert!(id > l); }
            last = Some(id);
            assert!(t.sessions.len() <= limit);
            if had >= limit { assert!(!t.sessions.contains_key(&oldest.unwrap())); }
            assert!(t.sessions.contains_key(&id));
        } else if let Some(l) = last {
            t.remove(l);
        }
    }
    std::mem::forget(t);
    std::mem::forget(tx);
    std::mem::forget(rx);
}
