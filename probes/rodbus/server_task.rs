#![allow(unused)]
use super::*;
use crate::common::frame::{Frame, FrameHeader, FrameWriter, FramedReader, TxId};
use crate::server::handler::{RequestHandler, ServerHandlerMap};
use crate::vprobe::{block_on, VerifIo};
use crate::types::{Indexed, UnitId};

struct H {
    key: u16,
    calls: u32,
}

impl RequestHandler for H {
    fn read_coil(&self, a: u16) -> Result<bool, ExceptionCode> {
        Ok(((a ^ self.key) & 1) == 1)
    }
}

#[kani::proof]
#[kani::unwind(12)]
fn bisect_map() {
    let unit: u8 = kani::any();
    let handler = H { key: 0, calls: 0 }.wrap();
    let mut map = ServerHandlerMap::single(UnitId::new(1), handler.clone());
    assert!(map.get(UnitId::new(unit)).is_some() == (unit == 1));
}

#[kani::proof]
#[kani::unwind(12)]
fn bisect_mpsc() {
    let (tx, mut rx) = tokio::sync::mpsc::channel::<ServerCommand>(1);
    tx.try_send(ServerCommand::Shutdown).unwrap();
    assert!(rx.try_recv().is_ok());
}

#[kani::proof]
#[kani::unwind(12)]
fn bisect_writer() {
    let mut w = FrameWriter::tcp();
    let tx: u16 = kani::any();
    let r = w.format_ex(FrameHeader::new_tcp_header(UnitId::new(1), TxId::new(tx)), FunctionField::unknown(0x55), ExceptionCode::IllegalFunction, DecodeLevel::nothing());
    assert!(r.is_ok());
}

#[kani::proof]
#[kani::unwind(12)]
fn bisect_io() {
    let mut io = PhysLayer::new_verif(VerifIo::new());
    let r = block_on(io.write(&[1, 2, 3], crate::decode::PhysDecodeLevel::Nothing));
    assert!(r.is_ok());
    assert!(io.verif().wlen == 3);
    std::mem::forget(io);
}

#[kani::proof]
fn bisect_tracing() {
    tracing::info!("hello {}", 1);
}

#[kani::proof]
fn bisect_cursor() {
    let mut buf = [0u8; 8];
    let mut c = scursor::WriteCursor::new(&mut buf);
    let v: u16 = kani::any();
    c.write_u16_be(v).unwrap();
    assert!(c.position() == 2);
}

#[kani::proof]
fn bisect_block_on() {
    async fn f(x: u8) -> u8 { x }
    let x: u8 = kani::any();
    assert!(block_on(f(x)) == x);
}


use crate::server::request::Request;
use crate::common::function::FunctionCode;
use scursor::ReadCursor;

#[kani::proof]
#[kani::unwind(12)]
fn pa_parse_only() {
    let len: usize = kani::any();
    kani::assume(len <= 9);
    let bytes: [u8; 9] = kani::any();
    let fcv: u8 = kani::any();
    let fc = match FunctionCode::get(fcv) { Some(x) => x, None => return };
    let mut cursor = ReadCursor::new(&bytes[..len]);
    let r = Request::parse(fc, &mut cursor);
    if fcv == 1 {
        let start = ((bytes[0] as u32) << 8) | bytes[1] as u32;
        let count = ((bytes[2] as u32) << 8) | bytes[3] as u32;
        let ok = len == 4 && count >= 1 && count <= 2000 && start + count <= 65536;
        assert!(r.is_ok() == ok);
    }
}

#[kani::proof]
#[kani::unwind(20)]
fn pb_reply_only() {
    let start: u16 = kani::any();
    let count: u16 = kani::any();
    kani::assume(count >= 1 && count <= 16);
    let range = match crate::types::AddressRange::try_from(start, count) { Ok(r) => r, Err(_) => return };
    let req = Request::ReadCoils(range.of_read_bits().unwrap());
    let key: u16 = kani::any();
    let tx: u16 = kani::any();
    let mut h = H { key, calls: 0 };
    let mut w = FrameWriter::tcp();
    let hdr = FrameHeader::new_tcp_header(UnitId::new(7), TxId::new(tx));
    let out = req.get_reply(hdr, &mut h, &mut w, DecodeLevel::nothing()).unwrap();
    let nbytes = ((count + 7) / 8) as usize;
    assert!(out.len() == 9 + nbytes);
    assert!(out[7] == 1);
    assert!(out[8] == nbytes as u8);
    let i: u16 = kani::any();
    kani::assume(i < count);
    let bit = (out[9 + (i / 8) as usize] >> (i % 8)) & 1;
    assert!((bit == 1) == ((((start + i) ^ key) & 1) == 1));
}

fn mk_session(handler: std::sync::Arc<std::sync::Mutex<Box<H>>>, rx: tokio::sync::mpsc::Receiver<ServerCommand>) -> SessionTask<H> {
    let map = ServerHandlerMap::single(UnitId::new(1), handler);
    SessionTask::new(map, AuthorizationType::None, FrameWriter::tcp(), FramedReader::tcp(), rx, DecodeLevel::nothing())
}

#[kani::proof]
#[kani::unwind(20)]
fn pc_handle_read_coils() {
    let key: u16 = kani::any();
    let tx: u16 = kani::any();
    let handler = H { key, calls: 0 }.wrap();
    let (ctx, rx) = tokio::sync::mpsc::channel(1);
    let mut session = mk_session(handler.clone(), rx);
    let mut io = PhysLayer::new_verif(VerifIo::new());
    let start: u16 = kani::any();
    let count: u16 = kani::any();
    kani::assume(count >= 1 && count <= 16);
    kani::assume(start as u32 + count as u32 <= 65536);
    let bytes = [1u8, (start >> 8) as u8, start as u8, (count >> 8) as u8, count as u8];
    let mut frame = Frame::new(FrameHeader::new_tcp_header(UnitId::new(1), TxId::new(tx)));
    frame.set(&bytes);
    let res = block_on(session.handle_frame(&mut io, frame));
    assert!(res.is_ok());
    let v = io.verif();
    let nbytes = ((count + 7) / 8) as usize;
    assert!(v.writes == 1);
    assert!(v.wlen == 9 + nbytes);
    let i: u16 = kani::any();
    kani::assume(i < count);
    let bit = (v.written[9 + (i / 8) as usize] >> (i % 8)) & 1;
    assert!((bit == 1) == ((((start + i) ^ key) & 1) == 1));
    std::mem::forget(io);
    std::mem::forget(session);
    std::mem::forget(ctx);
    std::mem::forget(handler);
}

#[kani::proof]
#[kani::unwind(20)]
fn pd_handle_unknown_fc() {
    let tx: u16 = kani::any();
    let unit: u8 = kani::any();
    let handler = H { key: 0, calls: 0 }.wrap();
    let (ctx, rx) = tokio::sync::mpsc::channel(1);
    let mut session = mk_session(handler.clone(), rx);
    let mut io = PhysLayer::new_verif(VerifIo::new());
    let fc: u8 = kani::any();
    kani::assume(!(fc >= 1 && fc <= 6) && fc != 15 && fc != 16);
    let mut frame = Frame::new(FrameHeader::new_tcp_header(UnitId::new(unit), TxId::new(tx)));
    frame.set(&[fc]);
    let res = block_on(session.handle_frame(&mut io, frame));
    assert!(res.is_ok());
    let v = io.verif();
    assert!(v.writes == 1);
    assert!(v.wlen == 9);
    assert!(v.written[7] == fc | 0x80);
    assert!(v.written[8] == 1);
    std::mem::forget(io);
    std::mem::forget(session);
    std::mem::forget(ctx);
    std::mem::forget(handler);
}

#[kani::proof]
#[kani::unwind(20)]
fn e1_session_only() {
    let handler = H { key: 0, calls: 0 }.wrap();
    let (ctx, rx) = tokio::sync::mpsc::channel(1);
    let session = mk_session(handler.clone(), rx);
    std::mem::forget(session);
    std::mem::forget(ctx);
    std::mem::forget(handler);
}

#[kani::proof]
#[kani::unwind(20)]
fn e2_channel_only() {
    let (ctx, rx) = tokio::sync::mpsc::channel::<ServerCommand>(1);
    std::mem::forget(rx);
    std::mem::forget(ctx);
}

#[kani::proof]
#[kani::unwind(18)]
fn e3_reply_err() {
    let handler = H { key: 0, calls: 0 }.wrap();
    let (ctx, rx) = tokio::sync::mpsc::channel(1);
    let mut session = mk_session(handler.clone(), rx);
    let mut io = PhysLayer::new_verif(VerifIo::new());
    let fc: u8 = kani::any();
    let tx: u16 = kani::any();
    let hdr = FrameHeader::new_tcp_header(UnitId::new(3), TxId::new(tx));
    let res = block_on(session.reply_with_error_generic(&mut io, hdr, FunctionField::unknown(fc), ExceptionCode::IllegalFunction));
    assert!(res.is_ok());
    assert!(io.verif().wlen == 9);
    std::mem::forget(io);
    std::mem::forget(session);
    std::mem::forget(ctx);
    std::mem::forget(handler);
}

#[kani::proof]
#[kani::unwind(20)]
fn e4_map_only() {
    let handler = H { key: 0, calls: 0 }.wrap();
    let mut map = ServerHandlerMap::single(UnitId::new(1), handler.clone());
    let unit: u8 = kani::any();
    let got = map.get(UnitId::new(unit)).is_some();
    assert!(got == (unit == 1));
    std::mem::forget(map);
    std::mem::forget(handler);
}

#[kani::proof]
#[kani::unwind(7)]
fn g1_reply_small() {
    let start: u16 = kani::any();
    let count: u16 = kani::any();
    kani::assume(count >= 1 && count <= 4);
    kani::assume((start as u32) + (count as u32) < 65536);
    let range = crate::types::AddressRange::try_from(start, count).unwrap();
    let req = Request::ReadCoils(range.of_read_bits().unwrap());
    let key: u16 = kani::any();
    let tx: u16 = kani::any();
    let mut h = H { key, calls: 0 };
    let mut w = FrameWriter::tcp();
    let hdr = FrameHeader::new_tcp_header(UnitId::new(7), TxId::new(tx));
    let out = req.get_reply(hdr, &mut h, &mut w, DecodeLevel::nothing()).unwrap();
    assert!(out.len() == 10);
    let i: u16 = kani::any();
    kani::assume(i < count);
    let bit = (out[9] >> i) & 1;
    assert!((bit == 1) == ((((start + i) ^ key) & 1) == 1));
}

#[kani::proof]
#[kani::unwind(4)]
fn g2_handle_read_small() {
    let key: u16 = kani::any();
    let tx: u16 = kani::any();
    let handler = H { key, calls: 0 }.wrap();
    let (ctx, rx) = tokio::sync::mpsc::channel(1);
    let mut session = mk_session(handler.clone(), rx);
    let mut io = PhysLayer::new_verif(VerifIo::new());
    let start: u16 = kani::any();
    let count: u16 = kani::any();
    kani::assume(count >= 1 && count <= 2);
    kani::assume((start as u32) + (count as u32) < 65536);
    let bytes = [1u8, (start >> 8) as u8, start as u8, (count >> 8) as u8, count as u8];
    let mut frame = Frame::new(FrameHeader::new_tcp_header(UnitId::new(1), TxId::new(tx)));
    frame.set(&bytes);
    let res = block_on(session.handle_frame(&mut io, frame));
    assert!(res.is_ok());
    let v = io.verif();
    assert!(v.writes == 1);
    assert!(v.wlen == 10);
    std::mem::forget(io);
    std::mem::forget(session);
    std::mem::forget(ctx);
    std::mem::forget(handler);
}

#[kani::proof]
#[kani::unwind(4)]
fn g3_handle_unknown_small() {
    let tx: u16 = kani::any();
    let unit: u8 = kani::any();
    let handler = H { key: 0, calls: 0 }.wrap();
    let (ctx, rx) = tokio::sync::mpsc::channel(1);
    let mut session = mk_session(handler.clone(), rx);
    let mut io = PhysLayer::new_verif(VerifIo::new());
    let fc: u8 = kani::any();
    kani::assume(!(fc >= 1 && fc <= 6) && fc != 15 && fc != 16);
    let mut frame = Frame::new(FrameHeader::new_tcp_header(UnitId::new(unit), TxId::new(tx)));
    frame.set(&[fc]);
    let res = block_on(session.handle_frame(&mut io, frame));
    assert!(res.is_ok());
    let v = io.verif();
    assert!(v.writes == 1);
    assert!(v.wlen == 9);
    std::mem::forget(io);
    std::mem::forget(session);
    std::mem::forget(ctx);
    std::mem::forget(handler);
}

#[kani::proof]
#[kani::unwind(4)]
fn h1_handle_concrete() {
    let handler = H { key: 0, calls: 0 }.wrap();
    let (ctx, rx) = tokio::sync::mpsc::channel(1);
    let mut session = mk_session(handler.clone(), rx);
    let mut io = PhysLayer::new_verif(VerifIo::new());
    let mut frame = Frame::new(FrameHeader::new_tcp_header(UnitId::new(1), TxId::new(5)));
    frame.set(&[0x55]);
    let res = block_on(session.handle_frame(&mut io, frame));
    assert!(res.is_ok());
    let v = io.verif();
    assert!(v.writes == 1);
    assert!(v.wlen == 9);
    std::mem::forget(io);
    std::mem::forget(session);
    std::mem::forget(ctx);
    std::mem::forget(handler);
}

fn q_write(io: &mut PhysLayer) -> Result<(), RequestError> {
    block_on(io.write(&[1, 2, 3], crate::decode::PhysDecodeLevel::Nothing))?;
    Ok(())
}

#[kani::proof]
#[kani::unwind(7)]
fn e5_write_question() {
    let mut io = PhysLayer::new_verif(VerifIo::new());
    let r = q_write(&mut io);
    assert!(r.is_ok());
    std::mem::forget(io);
}

#[kani::proof]
#[kani::unwind(18)]
fn e6_write_noq() {
    let mut io = PhysLayer::new_verif(VerifIo::new());
    let r = block_on(io.write(&[1, 2, 3], crate::decode::PhysDecodeLevel::Nothing));
    assert!(r.is_ok());
    std::mem::forget(r);
    std::mem::forget(io);
}

// ---- glue harness with contract stubs ----
use crate::types::{AddressRange, ReadBitsRange};
use crate::common::frame::FunctionField as FF;

fn parse_stub<'a>(function: FunctionCode, _cursor: &'a mut ReadCursor) -> Result<Request<'a>, RequestError> where 'a: 'a {
    let ok: bool = kani::any();
    if ok {
        // any request of the given function; payload-free kinds are enough for the glue
        let idx: u16 = kani::any();
        match function {
            FunctionCode::WriteSingleRegister => Ok(Request::WriteSingleRegister(Indexed::new(idx, kani::any()))),
            FunctionCode::WriteSingleCoil => Ok(Request::WriteSingleCoil(Indexed::new(idx, kani::any()))),
            _ => Ok(Request::ReadCoils(ReadBitsRange { inner: AddressRange { start: idx, count: 1 } })),
        }
    } else {
        Err(RequestError::BadResponse(AduParseError::InsufficientBytes))
    }
}

fn get_reply_stub<'a, 'b>(
    _this: &Request<'a>,
    header: FrameHeader,
    handler: &mut dyn RequestHandler,
    writer: &'b mut FrameWriter,
    level: DecodeLevel,
) -> Result<&'b [u8], RequestError> where 'a: 'a {
    // contract: exactly one pass over the handler, then one formatted frame
    let _ = handler.write_single_register(Indexed::new(0, 0));
    writer.format_ex(header, FF::unknown(0x7F), ExceptionCode::Acknowledge, level)
}

#[kani::proof]
#[kani::unwind(14)]
#[kani::stub(crate::server::request::Request::parse, parse_stub)]
#[kani::stub(crate::server::request::Request::get_reply, get_reply_stub)]
fn glue_tcp() {
    let tx: u16 = kani::any();
    let unit: u8 = kani::any();
    let handler = H { key: 0, calls: 0 }.wrap();
    let (ctx, rx) = tokio::sync::mpsc::channel(1);
    let mut session = mk_session(handler.clone(), rx);
    let mut io = PhysLayer::new_verif(VerifIo::new());
    let fc: u8 = kani::any();
    let len: usize = kani::any();
    kani::assume(len <= 2);
    let mut frame = Frame::new(FrameHeader::new_tcp_header(UnitId::new(unit), TxId::new(tx)));
    frame.set(&[fc, 0][..len]);
    let res = block_on(session.handle_frame(&mut io, frame));
    assert!(res.is_ok());
    let calls = handler.lock().unwrap().calls;
    let v = io.verif();
    if len == 0 {
        assert!(v.writes == 0 && calls == 0);
    } else if FunctionCode::get(fc).is_none() {
        assert!(calls == 0);
        assert!(v.writes == 1);
        assert!(v.written[7] == fc | 0x80 && v.written[8] == 1);
    } else if unit != 1 {
        assert!(calls == 0);
    } else {
        assert!(v.writes == 1);
        assert!(calls <= 1);
    }
    std::mem::forget(io);
    std::mem::forget(session);
    std::mem::forget(ctx);
    std::mem::forget(handler);
}
