#![allow(unused)]
use super::*;
use crate::client::requests::read_bits::ReadBits;
use crate::client::requests::write_multiple::{MultipleWriteRequest, WriteMultiple};
use crate::types::{AddressRange, Indexed, UnitId};
use crate::common::frame::{FrameHeader, FrameWriter, TxId};
use crate::decode::DecodeLevel;

#[kani::proof]
#[kani::unwind(20)]
fn c04_read_coils_reply() {
    let start: u16 = kani::any();
    let count: u16 = kani::any();
    kani::assume(count >= 1 && count <= 16);
    kani::assume((start as u32) + (count as u32) < 65536);
    let range = AddressRange::try_from(start, count).unwrap().of_read_bits().unwrap();
    let (tx, mut rx) = tokio::sync::oneshot::channel();
    let mut req = Request::new(UnitId::new(1), Duration::from_secs(1), RequestDetails::ReadCoils(ReadBits::channel(range, tx)));
    let len: usize = kani::any();
    kani::assume(len <= 6);
    let bytes: [u8; 6] = kani::any();
    let r = req.handle_response(&bytes[..len], AppDecodeLevel::Nothing);
    let nb = ((count + 7) / 8) as usize;
    let good = len == 2 + nb && bytes[0] == 1;
    assert!(r.is_ok() == good);
    if good {
        let v = rx.try_recv().unwrap().unwrap();
        assert!(v.len() == count as usize);
        let i: usize = kani::any();
        kani::assume(i < count as usize);
        assert!(v[i].index == start + i as u16);
        assert!(v[i].value == (((bytes[2 + i / 8] >> (i % 8)) & 1) == 1));
        std::mem::forget(v);
    }
    if bytes[0] == 0x81 && len == 2 {
        assert!(r == Err(RequestError::Exception(ExceptionCode::from(bytes[1]))));
    }
    std::mem::forget(req);
    std::mem::forget(rx);
}

#[kani::proof]
#[kani::unwind(8)]
fn c03_write_multiple_registers_tcp() {
    let start: u16 = kani::any();
    let n: usize = kani::any();
    kani::assume(n >= 1 && n <= 3);
    let vals: [u16; 3] = kani::any();
    let mut v = Vec::new();
    for i in 0..n { v.push(vals[i]); }
    let wm = match WriteMultiple::from(start, v) { Ok(x) => x, Err(_) => { assert!(start as usize + n > 65536); return; } };
    let (tx, rx) = tokio::sync::oneshot::channel();
    let details = RequestDetails::WriteMultipleRegisters(MultipleWriteRequest::new(wm, Promise::channel(tx)));
    let mut w = FrameWriter::tcp();
    let txid: u16 = kani::any();
    let unit: u8 = kani::any();
    let out = w.format_request(FrameHeader::new_tcp_header(UnitId::new(unit), TxId::new(txid)), details.function(), &details, DecodeLevel::nothing()).unwrap();
    assert!(out.len() == 13 + 2 * n);
    assert!(out[0] == (txid >> 8) as u8 && out[1] == txid as u8 && out[2] == 0 && out[3] == 0);
    assert!(out[4] == 0 && out[5] as usize == 7 + 2 * n);
    assert!(out[6] == unit && out[7] == 16);
    assert!(out[8] == (start >> 8) as u8 && out[9] == start as u8 && out[10] == 0 && out[11] == n as u8 && out[12] == (2 * n) as u8);
    let i: usize = kani::any();
    kani::assume(i < n);
    assert!(out[13 + 2 * i] == (vals[i] >> 8) as u8 && out[14 + 2 * i] == vals[i] as u8);
    std::mem::forget(details);
    std::mem::forget(rx);
}

#[kani::proof]
#[kani::unwind(4)]
fn c10_promise_once() {
    use std::sync::{Arc, Mutex};
    let log: Arc<Mutex<(u8, Option<Result<u16, RequestError>>)>> = Arc::new(Mutex::new((0, None)));
    let l2 = log.clone();
    let mut p: Promise<u16> = Promise::new(move |r| { let mut g = l2.lock().unwrap(); g.0 += 1; g.1 = Some(r); });
    let k: u8 = kani::any();
    kani::assume(k <= 2);
    let a: bool = kani::any();
    let v: u16 = kani::any();
    let mut first: Option<Result<u16, RequestError>> = None;
    for _ in 0..k {
        if a { p.success(v); if first.is_none() { first = Some(Ok(v)); } } else { p.failure(RequestError::NoConnection); if first.is_none() { first = Some(Err(RequestError::NoConnection)); } }
    }
    drop(p);
    let g = log.lock().unwrap();
    assert!(g.0 == 1);
    let expect = first.unwrap_or(Err(RequestError::Shutdown));
    assert!(g.1 == Some(expect));
}

#[kani::proof]
#[kani::unwind(11)]
fn c04_read_coils_reply_cb() {
    use std::sync::{Arc, Mutex};
    let start: u16 = kani::any();
    let count: u16 = kani::any();
    kani::assume(count >= 1 && count <= 8);
    kani::assume((start as u32) + (count as u32) < 65536);
    let range = AddressRange::try_from(start, count).unwrap().of_read_bits().unwrap();
    // (completions, ok?, items, xor of indices, packed values)
    let log: Arc<Mutex<(u8, bool, u16, u16, u16)>> = Arc::new(Mutex::new((0, false, 0, 0, 0)));
    let l2 = log.clone();
    let promise = crate::client::requests::read_bits::Promise::new(move |r: Result<crate::types::BitIterator, RequestError>| {
        let mut g = l2.lock().unwrap();
        g.0 += 1;
        if let Ok(it) = r {
            g.1 = true;
            let mut n = 0u16;
            for x in it {
                g.3 ^= x.index;
                if x.value { g.4 |= 1 << n; }
                n += 1;
            }
            g.2 = n;
        }
    });
    let mut req = Request::new(UnitId::new(1), Duration::from_secs(1), RequestDetails::ReadCoils(ReadBits::new(range, promise)));
    let len: usize = kani::any();
    kani::assume(len <= 4);
    let bytes: [u8; 4] = kani::any();
    let r = req.handle_response(&bytes[..len], AppDecodeLevel::Nothing);
    let good = len == 3 && bytes[0] == 1;
    assert!(r.is_ok() == good);
    {
        let g = log.lock().unwrap();
        if good {
            assert!(g.0 == 1 && g.1 && g.2 == count);
            let mask: u16 = ((1u32 << count) - 1) as u16;
            assert!(g.4 == (bytes[2] as u16) & mask);
        } else {
            assert!(g.0 == 0);
        }
    }
    std::mem::forget(req);
    std::mem::forget(log);
}
