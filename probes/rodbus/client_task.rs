#![allow(unused)]
use super::*;

#[kani::proof]
#[kani::unwind(8)]
fn c12_timeout_counter() {
    let n: usize = kani::any();
    kani::assume(n >= 1 && n <= 4);
    let mut c = TimeoutCounter::new(NonZeroUsize::new(n));
    let mut run: usize = 0;
    for _ in 0..6 {
        let timeout: bool = kani::any();
        if timeout {
            run += 1;
            let r = c.increment();
            if run >= n { assert!(r == Err(SessionError::MaxTimeouts(n))); return; } else { assert!(r.is_ok()); }
        } else {
            run = 0;
            c.reset();
        }
    }
}

#[kani::proof]
fn c11_txid() {
    let v: u16 = kani::any();
    let mut t = TxId::new(v);
    let a = t.next();
    let b = t.next();
    assert!(a.to_u16() == v);
    assert!(b.to_u16() == v.wrapping_add(1));
    assert!(a != b);
}
