#![allow(unused)]
use super::*;
use crate::tcp::frame::MbapParser;
use crate::decode::FrameDecodeLevel;

#[kani::proof]
#[kani::unwind(14)]
fn c05_mbap_any_offset() {
    // arbitrary buffer state: begin/end anywhere, contents arbitrary
    let mut rb = ReadBuffer::new();
    let begin: usize = kani::any();
    let n: usize = kani::any();
    kani::assume(n <= 12);
    kani::assume(begin <= 260 - 12);
    let data: [u8; 12] = kani::any();
    let mut i = 0;
    while i < n { rb.buffer[begin + i] = data[i]; i += 1; }
    rb.begin = begin;
    rb.end = begin + n;
    let mut p = MbapParser::new();
    let r = p.parse(&mut rb, FrameDecodeLevel::Nothing);
    let lenf = ((data[4] as usize) << 8) | data[5] as usize;
    let proto = ((data[2] as usize) << 8) | data[3] as usize;
    if n < 7 {
        assert!(matches!(r, Ok(None)));
        assert!(rb.len() == n);
    } else if proto != 0 || lenf == 0 || lenf > 254 {
        assert!(r.is_err());
    } else if n < 6 + lenf {
        assert!(matches!(r, Ok(None)));
    } else {
        let f = r.unwrap().unwrap();
        assert!(f.payload().len() == lenf - 1);
        assert!(rb.len() == n - 6 - lenf);
        assert!(f.header.tx_id.unwrap().to_u16() == ((data[0] as u16) << 8 | data[1] as u16));
        assert!(f.header.destination.value() == data[6]);
        let j: usize = kani::any();
        kani::assume(j < lenf - 1);
        assert!(f.payload()[j] == data[7 + j]);
    }
}
