#![allow(unused)]
use crate::retry::*;
use std::time::Duration;
use crate::server::{AddressFilter, WildcardIPv4};
use std::net::{IpAddr, Ipv4Addr, Ipv6Addr};

#[kani::proof]
#[kani::unwind(6)]
fn c14_doubling() {
    let min_ms: u32 = kani::any();
    let max_ms: u32 = kani::any();
    kani::assume(min_ms <= max_ms);
    let min = Duration::from_millis(min_ms as u64);
    let max = Duration::from_millis(max_ms as u64);
    let mut s = doubling_retry_strategy(min, max);
    let mut expect: u64 = min_ms as u64;
    for _ in 0..4 {
        let d = s.after_failed_connect();
        assert!(d == Duration::from_millis(expect));
        expect = core::cmp::min(expect * 2, max_ms as u64);
    }
    assert!(s.after_disconnect() == min);
    s.reset();
    assert!(s.after_failed_connect() == min);
}

#[kani::proof]
fn c16_wildcard_match() {
    let wc = WildcardIPv4 { b3: kani::any(), b2: kani::any(), b1: kani::any(), b0: kani::any() };
    let o: [u8; 4] = kani::any();
    let m = wc.matches(IpAddr::V4(Ipv4Addr::new(o[0], o[1], o[2], o[3])));
    let e = wc.b3.map_or(true, |x| x == o[0]) && wc.b2.map_or(true, |x| x == o[1]) && wc.b1.map_or(true, |x| x == o[2]) && wc.b0.map_or(true, |x| x == o[3]);
    assert!(m == e);
    let s: [u16; 8] = kani::any();
    assert!(!wc.matches(IpAddr::V6(Ipv6Addr::new(s[0], s[1], s[2], s[3], s[4], s[5], s[6], s[7]))));
}

#[kani::proof]
#[kani::unwind(10)]
fn c16_wildcard_parse() {
    let n: usize = kani::any();
    kani::assume(n <= 7);
    let b: [u8; 7] = kani::any();
    for i in 0..7 { kani::assume(b[i] == b'*' || b[i] == b'.' || (b[i] >= b'0' && b[i] <= b'9') || b[i] == b'+' || b[i] == b'a'); }
    let s = match std::str::from_utf8(&b[..n]) { Ok(s) => s, Err(_) => return };
    let r: Result<WildcardIPv4, _> = s.parse();
    if n < 7 { assert!(r.is_err()); }
}

#[cfg(feature = "enable-tls")]
#[kani::proof]
fn c09_min_version() {
    use sfio_rustls_config::ProtocolVersions;
    use crate::tcp::tls::MinTlsVersion;
    let v12: ProtocolVersions = MinTlsVersion::V1_2.into();
    let v13: ProtocolVersions = MinTlsVersion::V1_3.into();
    assert!(v12 == ProtocolVersions::new().enable_v12().enable_v13());
    assert!(v13 == ProtocolVersions::v13_only());
}

#[kani::proof]
#[kani::unwind(5)]
fn c14_doubling_secs() {
    let min_s: u16 = kani::any();
    let max_s: u16 = kani::any();
    kani::assume(min_s <= max_s);
    let min = Duration::from_secs(min_s as u64);
    let max = Duration::from_secs(max_s as u64);
    let mut s = doubling_retry_strategy(min, max);
    let mut expect: u64 = min_s as u64;
    for _ in 0..3 {
        let d = s.after_failed_connect();
        assert!(d.as_secs() == expect && d.subsec_nanos() == 0);
        expect = core::cmp::min(expect * 2, max_s as u64);
    }
}
