#![allow(unused)]
use super::*;
use crate::common::buffer::ReadBuffer;

fn crc_ref(data: &[u8]) -> u16 {
    let mut crc: u16 = 0xFFFF;
    for b in data {
        crc ^= *b as u16;
        for _ in 0..8 {
            if crc & 1 != 0 { crc = (crc >> 1) ^ 0xA001; } else { crc >>= 1; }
        }
    }
    crc
}

#[kani::proof]
#[kani::unwind(10)]
fn c06_rtu_request_fixed() {
    // 8-byte request frames of the six fixed-length functions
    let data: [u8; 8] = kani::any();
    kani::assume(data[1] >= 1 && data[1] <= 6);
    let mut rb = ReadBuffer::new();
    rb.fill_for_verif(&data);
    let mut p = RtuParser::new_request_parser();
    let r = p.parse(&mut rb, FrameDecodeLevel::Nothing);
    let good = crc_ref(&data[..6]) == ((data[7] as u16) << 8 | data[6] as u16);
    match r {
        Ok(Some(f)) => { assert!(good); assert!(f.payload().len() == 5); assert!(f.payload()[0] == data[1]); assert!(f.payload()[4] == data[5]); }
        Ok(None) => { assert!(false); }
        Err(_) => { assert!(!good); }
    }
}
