// concrete counterexample(s) for harness c09_min_version_table (module verif_tls_client, engine rodbus)
// replay: ./check C09 --replay /verif/replays/C09/c09_min_version_table.rs
/// Test generated for harness `tcp::tls::client::verif_tls_client::c09_min_version_table` 
///
/// Check for `assertion`: ""[C09] minimum TLS version maps to exactly the versions >= it""

#[test]
fn kani_concrete_playback_c09_min_version_table_12893553003172717013() {
    let concrete_vals: Vec<Vec<u8>> = vec![
        // 0
        vec![0],
    ];
    kani::concrete_playback_run(concrete_vals, c09_min_version_table);
}
