// concrete counterexample(s) for harness c08_authorization_mapping (module verif_server_task, engine rodbus)
// replay: ./check C08 --replay /verif/replays/C08/c08_authorization_mapping.rs
/// Test generated for harness `server::task::verif_server_task::c08_authorization_mapping` 
///
/// Check for `assertion`: ""[C08] the request's own address range / index is passed""

#[test]
fn kani_concrete_playback_c08_authorization_mapping_8951756541586959652() {
    let concrete_vals: Vec<Vec<u8>> = vec![
        // 5
        vec![5],
        // 255
        vec![255],
        // 32768
        vec![0, 128],
        // 65535
        vec![255, 255],
        // 0
        vec![0, 0],
        // 255
        vec![255],
        // 255
        vec![255],
        // 255
        vec![255],
        // 255
        vec![255],
        // 255
        vec![255],
    ];
    kani::concrete_playback_run(concrete_vals, c08_authorization_mapping);
}

/// Test generated for harness `server::task::verif_server_task::c08_authorization_mapping` 
///
/// Check for `cover`: "write multiple coils"

#[test]
fn kani_concrete_playback_c08_authorization_mapping_10556088697068726372() {
    let concrete_vals: Vec<Vec<u8>> = vec![
        // 6
        vec![6],
        // 255
        vec![255],
        // 32768
        vec![0, 128],
        // 65535
        vec![255, 255],
        // 0
        vec![0, 0],
        // 255
        vec![255],
        // 255
        vec![255],
        // 255
        vec![255],
        // 255
        vec![255],
        // 173
        vec![173],
    ];
    kani::concrete_playback_run(concrete_vals, c08_authorization_mapping);
}
