// concrete counterexample(s) for harness c18_write_multiple_passthrough (module verif_ffi_server, engine ffi)
// replay: ./check C18 --replay /verif/replays/C18/c18_write_multiple_passthrough.rs
/// Test generated for harness `server::verif_ffi_server::c18_write_multiple_passthrough` 
///
/// Check for `assertion`: ""[C18] write_multiple_coils: the application's WriteResult is what the client receives""
///
/// # Warning
///
/// Concrete playback tests combined with stubs or contracts is highly
/// experimental, and subject to change.
///
/// The original harness has stubs which are not applied to this test.
/// This may cause a mismatch of non-deterministic values if the stub
/// creates any non-deterministic value.
/// The execution path may also differ, which can be used to refine the stub
/// logic.

#[test]
fn kani_concrete_playback_c18_write_multiple_passthrough_983067480678127244() {
    let concrete_vals: Vec<Vec<u8>> = vec![
        // 105
        vec![105],
        // 0
        vec![0],
        // 255
        vec![255],
        // 1
        vec![1],
        // 62447
        vec![239, 243],
        // 251
        vec![251],
        // 255
        vec![255],
        // 0
        vec![0],
        // 0
        vec![0],
        // 1
        vec![1],
    ];
    kani::concrete_playback_run(concrete_vals, c18_write_multiple_passthrough);
}

/// Test generated for harness `server::verif_ffi_server::c18_write_multiple_passthrough` 
///
/// Check for `assertion`: ""[C18] write_multiple_registers: the application's WriteResult is what the client receives""
///
/// # Warning
///
/// Concrete playback tests combined with stubs or contracts is highly
/// experimental, and subject to change.
///
/// The original harness has stubs which are not applied to this test.
/// This may cause a mismatch of non-deterministic values if the stub
/// creates any non-deterministic value.
/// The execution path may also differ, which can be used to refine the stub
/// logic.

#[test]
fn kani_concrete_playback_c18_write_multiple_passthrough_14786533113207153444() {
    let concrete_vals: Vec<Vec<u8>> = vec![
        // 105
        vec![105],
        // 0
        vec![0],
        // 255
        vec![255],
        // 1
        vec![1],
        // 55295
        vec![255, 215],
        // 251
        vec![251],
        // 255
        vec![255],
        // 0
        vec![0],
        // 0
        vec![0],
        // 0
        vec![0],
    ];
    kani::concrete_playback_run(concrete_vals, c18_write_multiple_passthrough);
}

/// Test generated for harness `server::verif_ffi_server::c18_write_multiple_passthrough` 
///
/// Check for `cover`: "refused"
///
/// # Warning
///
/// Concrete playback tests combined with stubs or contracts is highly
/// experimental, and subject to change.
///
/// The original harness has stubs which are not applied to this test.
/// This may cause a mismatch of non-deterministic values if the stub
/// creates any non-deterministic value.
/// The execution path may also differ, which can be used to refine the stub
/// logic.

#[test]
fn kani_concrete_playback_c18_write_multiple_passthrough_17037154351615945583() {
    let concrete_vals: Vec<Vec<u8>> = vec![
        // 108
        vec![108],
        // 0
        vec![0],
        // 255
        vec![255],
        // 1
        vec![1],
        // 65510
        vec![230, 255],
        // 255
        vec![255],
        // 255
        vec![255],
        // 255
        vec![255],
        // 255
        vec![255],
        // 1
        vec![1],
    ];
    kani::concrete_playback_run(concrete_vals, c18_write_multiple_passthrough);
}

/// Test generated for harness `server::verif_ffi_server::c18_write_multiple_passthrough` 
///
/// Check for `cover`: "accepted"
///
/// # Warning
///
/// Concrete playback tests combined with stubs or contracts is highly
/// experimental, and subject to change.
///
/// The original harness has stubs which are not applied to this test.
/// This may cause a mismatch of non-deterministic values if the stub
/// creates any non-deterministic value.
/// The execution path may also differ, which can be used to refine the stub
/// logic.

#[test]
fn kani_concrete_playback_c18_write_multiple_passthrough_1765921193330476124() {
    let concrete_vals: Vec<Vec<u8>> = vec![
        // 103
        vec![103],
        // 1
        vec![1],
        // 0
        vec![0],
        // 1
        vec![1],
        // 24580
        vec![4, 96],
        // 255
        vec![255],
        // 255
        vec![255],
        // 255
        vec![255],
        // 255
        vec![255],
        // 1
        vec![1],
    ];
    kani::concrete_playback_run(concrete_vals, c18_write_multiple_passthrough);
}
