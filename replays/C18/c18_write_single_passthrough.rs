// concrete counterexample(s) for harness c18_write_single_passthrough (module verif_ffi_server, engine ffi)
// replay: ./check C18 --replay /verif/replays/C18/c18_write_single_passthrough.rs
/// Test generated for harness `server::verif_ffi_server::c18_write_single_passthrough` 
///
/// Check for `assertion`: ""[C18] write_single_coil: the application's WriteResult is what the client receives""
///
/// # Warning
///
/// Concrete playback tests combined with stubs or contracts is highly
/// experimental, and subject to change.
///
/// The original harness has stubs which are not applied to this test.
/// This may cause a mismatch of non-deterministic values if the stub
/// creates any non-deterministic value.
/// The execution path may also differ, which can be used to refine the stub
/// logic.

#[test]
fn kani_concrete_playback_c18_write_single_passthrough_14681793671133113856() {
    let concrete_vals: Vec<Vec<u8>> = vec![
        // 5
        vec![5],
        // 0
        vec![0],
        // 255
        vec![255],
        // 1
        vec![1],
        // 65535
        vec![255, 255],
        // 1
        vec![1],
        // 0
        vec![0],
    ];
    kani::concrete_playback_run(concrete_vals, c18_write_single_passthrough);
}

/// Test generated for harness `server::verif_ffi_server::c18_write_single_passthrough` 
///
/// Check for `cover`: "coil write refused with ServerDeviceFailure"
///
/// # Warning
///
/// Concrete playback tests combined with stubs or contracts is highly
/// experimental, and subject to change.
///
/// The original harness has stubs which are not applied to this test.
/// This may cause a mismatch of non-deterministic values if the stub
/// creates any non-deterministic value.
/// The execution path may also differ, which can be used to refine the stub
/// logic.

#[test]
fn kani_concrete_playback_c18_write_single_passthrough_15264093302425634184() {
    let concrete_vals: Vec<Vec<u8>> = vec![
        // 13
        vec![13],
        // 0
        vec![0],
        // 255
        vec![255],
        // 1
        vec![1],
        // 0
        vec![0, 0],
        // 1
        vec![1],
        // 0
        vec![0],
    ];
    kani::concrete_playback_run(concrete_vals, c18_write_single_passthrough);
}

/// Test generated for harness `server::verif_ffi_server::c18_write_single_passthrough` 
///
/// Check for `assertion`: ""[C18] write_single_register: the application's WriteResult is what the client receives""
///
/// # Warning
///
/// Concrete playback tests combined with stubs or contracts is highly
/// experimental, and subject to change.
///
/// The original harness has stubs which are not applied to this test.
/// This may cause a mismatch of non-deterministic values if the stub
/// creates any non-deterministic value.
/// The execution path may also differ, which can be used to refine the stub
/// logic.

#[test]
fn kani_concrete_playback_c18_write_single_passthrough_7415694268561413458() {
    let concrete_vals: Vec<Vec<u8>> = vec![
        // 5
        vec![5],
        // 0
        vec![0],
        // 255
        vec![255],
        // 1
        vec![1],
        // 0
        vec![0, 0],
        // 0
        vec![0],
        // 0
        vec![0, 0],
    ];
    kani::concrete_playback_run(concrete_vals, c18_write_single_passthrough);
}

/// Test generated for harness `server::verif_ffi_server::c18_write_single_passthrough` 
///
/// Check for `cover`: "register write refused with a raw code"
///
/// # Warning
///
/// Concrete playback tests combined with stubs or contracts is highly
/// experimental, and subject to change.
///
/// The original harness has stubs which are not applied to this test.
/// This may cause a mismatch of non-deterministic values if the stub
/// creates any non-deterministic value.
/// The execution path may also differ, which can be used to refine the stub
/// logic.

#[test]
fn kani_concrete_playback_c18_write_single_passthrough_2457158464013948505() {
    let concrete_vals: Vec<Vec<u8>> = vec![
        // 9
        vec![9],
        // 0
        vec![0],
        // 255
        vec![255],
        // 1
        vec![1],
        // 0
        vec![0, 0],
        // 0
        vec![0],
        // 0
        vec![0, 0],
    ];
    kani::concrete_playback_run(concrete_vals, c18_write_single_passthrough);
}

/// Test generated for harness `server::verif_ffi_server::c18_write_single_passthrough` 
///
/// Check for `cover`: "accepted"
///
/// # Warning
///
/// Concrete playback tests combined with stubs or contracts is highly
/// experimental, and subject to change.
///
/// The original harness has stubs which are not applied to this test.
/// This may cause a mismatch of non-deterministic values if the stub
/// creates any non-deterministic value.
/// The execution path may also differ, which can be used to refine the stub
/// logic.

#[test]
fn kani_concrete_playback_c18_write_single_passthrough_12946526698608815839() {
    let concrete_vals: Vec<Vec<u8>> = vec![
        // 3
        vec![3],
        // 1
        vec![1],
        // 255
        vec![255],
        // 1
        vec![1],
        // 0
        vec![0, 0],
        // 0
        vec![0],
        // 0
        vec![0, 0],
    ];
    kani::concrete_playback_run(concrete_vals, c18_write_single_passthrough);
}

/// Test generated for harness `server::verif_ffi_server::c18_write_single_passthrough` 
///
/// Check for `cover`: "no callback registered"
///
/// # Warning
///
/// Concrete playback tests combined with stubs or contracts is highly
/// experimental, and subject to change.
///
/// The original harness has stubs which are not applied to this test.
/// This may cause a mismatch of non-deterministic values if the stub
/// creates any non-deterministic value.
/// The execution path may also differ, which can be used to refine the stub
/// logic.

#[test]
fn kani_concrete_playback_c18_write_single_passthrough_13368469626366677035() {
    let concrete_vals: Vec<Vec<u8>> = vec![
        // 0
        vec![0],
        // 0
        vec![0],
        // 0
        vec![0],
        // 0
        vec![0],
        // 32768
        vec![0, 128],
        // 0
        vec![0],
        // 0
        vec![0, 0],
    ];
    kani::concrete_playback_run(concrete_vals, c18_write_single_passthrough);
}
