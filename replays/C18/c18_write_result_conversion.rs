// concrete counterexample(s) for harness c18_write_result_conversion (module verif_ffi_ext, engine ffi)
// replay: ./check C18 --replay /verif/replays/C18/c18_write_result_conversion.rs
/// Test generated for harness `helpers::ext::verif_ffi_ext::c18_write_result_conversion` 
///
/// Check for `assertion`: ""[C18] a standard exception or a raw code is forwarded as such""

#[test]
fn kani_concrete_playback_c18_write_result_conversion_6854752244473911590() {
    let concrete_vals: Vec<Vec<u8>> = vec![
        // 0
        vec![0],
        // 255
        vec![255],
        // 5
        vec![5],
    ];
    kani::concrete_playback_run(concrete_vals, c18_write_result_conversion);
}

/// Test generated for harness `helpers::ext::verif_ffi_ext::c18_write_result_conversion` 
///
/// Check for `cover`: "raw exception code"

#[test]
fn kani_concrete_playback_c18_write_result_conversion_5482842056745216867() {
    let concrete_vals: Vec<Vec<u8>> = vec![
        // 0
        vec![0],
        // 255
        vec![255],
        // 9
        vec![9],
    ];
    kani::concrete_playback_run(concrete_vals, c18_write_result_conversion);
}

/// Test generated for harness `helpers::ext::verif_ffi_ext::c18_write_result_conversion` 
///
/// Check for `cover`: "success"

#[test]
fn kani_concrete_playback_c18_write_result_conversion_3661558852937636528() {
    let concrete_vals: Vec<Vec<u8>> = vec![
        // 1
        vec![1],
        // 0
        vec![0],
        // 0
        vec![0],
    ];
    kani::concrete_playback_run(concrete_vals, c18_write_result_conversion);
}
