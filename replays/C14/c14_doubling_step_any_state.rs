// concrete counterexample(s) for harness c14_doubling_step_any_state (module verif_retry, engine rodbus)
// replay: ./check C14 --replay /verif/replays/C14/c14_doubling_step_any_state.rs
/// Test generated for harness `retry::verif_retry::c14_doubling_step_any_state` 
///
/// Check for `cover`: "doubling would overflow u64 seconds"

#[test]
fn kani_concrete_playback_c14_doubling_step_any_state_13841233959293540562() {
    let concrete_vals: Vec<Vec<u8>> = vec![
        // 0ul
        vec![0, 0, 0, 0, 0, 0, 0, 0],
        // 9223372036854775808ul
        vec![0, 0, 0, 0, 0, 0, 0, 128],
        // 9223372036854775808ul
        vec![0, 0, 0, 0, 0, 0, 0, 128],
    ];
    kani::concrete_playback_run(concrete_vals, c14_doubling_step_any_state);
}

/// Test generated for harness `retry::verif_retry::c14_doubling_step_any_state` 
///
/// Check for `cover`: "plain doubling"

#[test]
fn kani_concrete_playback_c14_doubling_step_any_state_16565626828624471836() {
    let concrete_vals: Vec<Vec<u8>> = vec![
        // 0ul
        vec![0, 0, 0, 0, 0, 0, 0, 0],
        // 0ul
        vec![0, 0, 0, 0, 0, 0, 0, 0],
        // 1ul
        vec![1, 0, 0, 0, 0, 0, 0, 0],
    ];
    kani::concrete_playback_run(concrete_vals, c14_doubling_step_any_state);
}
