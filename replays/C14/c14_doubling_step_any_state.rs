// concrete counterexample(s) for harness c14_doubling_step_any_state (module verif_retry, engine rodbus)
// replay: ./check C14 --replay /verif/replays/C14/c14_doubling_step_any_state.rs
/// Test generated for harness `retry::verif_retry::c14_doubling_step_any_state` 
///
/// Check for `assertion`: ""[C14] next delay is min(2*current, max)""

#[test]
fn kani_concrete_playback_c14_doubling_step_any_state_6768158572003826314() {
    let concrete_vals: Vec<Vec<u8>> = vec![
        // 9223372036854775807ul
        vec![255, 255, 255, 255, 255, 255, 255, 127],
        // 18446744073675997183ul
        vec![255, 255, 255, 253, 255, 255, 255, 255],
        // 18446744073709551615ul
        vec![255, 255, 255, 255, 255, 255, 255, 255],
    ];
    kani::concrete_playback_run(concrete_vals, c14_doubling_step_any_state);
}

/// Test generated for harness `retry::verif_retry::c14_doubling_step_any_state` 
///
/// Check for `cover`: "doubling would overflow u64 seconds"

#[test]
fn kani_concrete_playback_c14_doubling_step_any_state_6224072404168548810() {
    let concrete_vals: Vec<Vec<u8>> = vec![
        // 9223372036854775807ul
        vec![255, 255, 255, 255, 255, 255, 255, 127],
        // 18446744073709551615ul
        vec![255, 255, 255, 255, 255, 255, 255, 255],
        // 18446744073709551615ul
        vec![255, 255, 255, 255, 255, 255, 255, 255],
    ];
    kani::concrete_playback_run(concrete_vals, c14_doubling_step_any_state);
}

/// Test generated for harness `retry::verif_retry::c14_doubling_step_any_state` 
///
/// Check for `cover`: "plain doubling"

#[test]
fn kani_concrete_playback_c14_doubling_step_any_state_12887614913478756672() {
    let concrete_vals: Vec<Vec<u8>> = vec![
        // 0ul
        vec![0, 0, 0, 0, 0, 0, 0, 0],
        // 4611686018427387904ul
        vec![0, 0, 0, 0, 0, 0, 0, 64],
        // 9223372036854775808ul
        vec![0, 0, 0, 0, 0, 0, 0, 128],
    ];
    kani::concrete_playback_run(concrete_vals, c14_doubling_step_any_state);
}
