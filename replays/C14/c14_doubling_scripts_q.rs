// concrete counterexample(s) for harness c14_doubling_scripts_q (module verif_retry, engine rodbus)
// replay: ./check C14 --replay /verif/replays/C14/c14_doubling_scripts_q.rs
/// Test generated for harness `retry::verif_retry::c14_doubling_scripts_q` 
///
/// Check for `assertion`: ""[C14] k-th consecutive failed connect waits min(min*2^(k-1), max)""

#[test]
fn kani_concrete_playback_c14_doubling_scripts_q_10679810419157075993() {
    let concrete_vals: Vec<Vec<u8>> = vec![
        // 3301933019
        vec![219, 127, 207, 196],
        // 3347087285
        vec![181, 127, 128, 199],
        // 1
        vec![1],
        // 2
        vec![2],
        // 0
        vec![0],
        // 0
        vec![0],
    ];
    kani::concrete_playback_run(concrete_vals, c14_doubling_scripts_q);
}

/// Test generated for harness `retry::verif_retry::c14_doubling_scripts_q` 
///
/// Check for `cover`: "cap reached after doubling"

#[test]
fn kani_concrete_playback_c14_doubling_scripts_q_12452305844754385391() {
    let concrete_vals: Vec<Vec<u8>> = vec![
        // 4294967295
        vec![255, 255, 255, 255],
        // 4294967295
        vec![255, 255, 255, 255],
        // 2
        vec![2],
        // 2
        vec![2],
        // 2
        vec![2],
        // 0
        vec![0],
        // 0
        vec![0],
    ];
    kani::concrete_playback_run(concrete_vals, c14_doubling_scripts_q);
}

/// Test generated for harness `retry::verif_retry::c14_doubling_scripts_q` 
///
/// Check for `cover`: "only failures"

#[test]
fn kani_concrete_playback_c14_doubling_scripts_q_480013237426647689() {
    let concrete_vals: Vec<Vec<u8>> = vec![
        // 87666919
        vec![231, 176, 57, 5],
        // 4126065562
        vec![154, 195, 238, 245],
        // 0
        vec![0],
        // 0
        vec![0],
        // 0
        vec![0],
        // 0
        vec![0],
        // 0
        vec![0],
    ];
    kani::concrete_playback_run(concrete_vals, c14_doubling_scripts_q);
}

/// Test generated for harness `retry::verif_retry::c14_doubling_scripts_q` 
///
/// Check for `cover`: "reset or disconnect last"

#[test]
fn kani_concrete_playback_c14_doubling_scripts_q_15771747204759711043() {
    let concrete_vals: Vec<Vec<u8>> = vec![
        // 4294967295
        vec![255, 255, 255, 255],
        // 4294967295
        vec![255, 255, 255, 255],
        // 2
        vec![2],
        // 2
        vec![2],
        // 2
        vec![2],
        // 2
        vec![2],
        // 2
        vec![2],
    ];
    kani::concrete_playback_run(concrete_vals, c14_doubling_scripts_q);
}
