// concrete counterexample(s) for harness c17_glue_write_register_unit_filter (module verif_glue_server, engine small)
// replay: ./check C17 --replay /verif/replays/C17/c17_glue_write_register_unit_filter.rs
/// Test generated for harness `server::task::verif_glue_server::c17_glue_write_register_unit_filter` 
///
/// Check for `assertion`: ""[C02] a request for another unit invokes no handler""

#[test]
fn kani_concrete_playback_c17_glue_write_register_unit_filter_1975389537035644826() {
    let concrete_vals: Vec<Vec<u8>> = vec![
        // 65535
        vec![255, 255],
        // 65535
        vec![255, 255],
        // 65535
        vec![255, 255],
        // 65535
        vec![255, 255],
        // 65535
        vec![255, 255],
        // 65535
        vec![255, 255],
        // 65535
        vec![255, 255],
        // 65535
        vec![255, 255],
        // 65535
        vec![255, 255],
        // 65535
        vec![255, 255],
        // 1
        vec![1],
        // 65535
        vec![255, 255],
        // 255
        vec![255],
        // 1
        vec![1],
        // 0
        vec![0],
        // 255
        vec![255, 0],
        // 255
        vec![255],
        // 255
        vec![255],
        // 255
        vec![255],
        // 255
        vec![255],
    ];
    kani::concrete_playback_run(concrete_vals, c17_glue_write_register_unit_filter);
}

/// Test generated for harness `server::task::verif_glue_server::c17_glue_write_register_unit_filter` 
///
/// Check for `cover`: "addressed and executed"

#[test]
fn kani_concrete_playback_c17_glue_write_register_unit_filter_6370986430394727206() {
    let concrete_vals: Vec<Vec<u8>> = vec![
        // 65535
        vec![255, 255],
        // 65535
        vec![255, 255],
        // 65535
        vec![255, 255],
        // 65535
        vec![255, 255],
        // 65535
        vec![255, 255],
        // 65535
        vec![255, 255],
        // 65535
        vec![255, 255],
        // 65535
        vec![255, 255],
        // 65535
        vec![255, 255],
        // 65535
        vec![255, 255],
        // 1
        vec![1],
        // 65535
        vec![255, 255],
        // 255
        vec![255],
        // 1
        vec![1],
        // 17
        vec![17],
        // 65535
        vec![255, 255],
        // 255
        vec![255],
        // 255
        vec![255],
        // 255
        vec![255],
        // 255
        vec![255],
    ];
    kani::concrete_playback_run(concrete_vals, c17_glue_write_register_unit_filter);
}

/// Test generated for harness `server::task::verif_glue_server::c17_glue_write_register_unit_filter` 
///
/// Check for `cover`: "addressed, handler raised"

#[test]
fn kani_concrete_playback_c17_glue_write_register_unit_filter_15540453522588421026() {
    let concrete_vals: Vec<Vec<u8>> = vec![
        // 62194
        vec![242, 242],
        // 62194
        vec![242, 242],
        // 62194
        vec![242, 242],
        // 62194
        vec![242, 242],
        // 2
        vec![2, 0],
        // 0
        vec![0, 0],
        // 62194
        vec![242, 242],
        // 62194
        vec![242, 242],
        // 62194
        vec![242, 242],
        // 62194
        vec![242, 242],
        // 0
        vec![0],
        // 5
        vec![5],
        // 0
        vec![0],
        // 3
        vec![3],
        // 17
        vec![17],
        // 1790
        vec![254, 6],
        // 3
        vec![3],
        // 7
        vec![7],
        // 0
        vec![0],
        // 252
        vec![252],
    ];
    kani::concrete_playback_run(concrete_vals, c17_glue_write_register_unit_filter);
}

/// Test generated for harness `server::task::verif_glue_server::c17_glue_write_register_unit_filter` 
///
/// Check for `cover`: "other unit"

#[test]
fn kani_concrete_playback_c17_glue_write_register_unit_filter_14696357194729101892() {
    let concrete_vals: Vec<Vec<u8>> = vec![
        // 0
        vec![0, 0],
        // 0
        vec![0, 0],
        // 0
        vec![0, 0],
        // 0
        vec![0, 0],
        // 0
        vec![0, 0],
        // 0
        vec![0, 0],
        // 0
        vec![0, 0],
        // 0
        vec![0, 0],
        // 0
        vec![0, 0],
        // 0
        vec![0, 0],
        // 0
        vec![0],
        // 1
        vec![1],
        // 0
        vec![0],
        // 1
        vec![1],
        // 16
        vec![16],
        // 32768
        vec![0, 128],
        // 0
        vec![0],
        // 128
        vec![128],
        // 0
        vec![0],
        // 0
        vec![0],
    ];
    kani::concrete_playback_run(concrete_vals, c17_glue_write_register_unit_filter);
}
