// concrete counterexample(s) for harness c17_glue_unknown_function_q (module verif_glue_server, engine small)
// replay: ./check C17 --replay /verif/replays/C17/c17_glue_unknown_function_q.rs
/// Test generated for harness `server::task::verif_glue_server::c17_glue_unknown_function_q` 
///
/// Check for `assertion`: ""[C17] an unsupported function addressed to an unconfigured unit id is not answered""

#[test]
fn kani_concrete_playback_c17_glue_unknown_function_q_11444160057223920103() {
    let concrete_vals: Vec<Vec<u8>> = vec![
        // 0
        vec![0, 0],
        // 0
        vec![0, 0],
        // 0
        vec![0, 0],
        // 0
        vec![0, 0],
        // 0
        vec![0, 0],
        // 0
        vec![0, 0],
        // 0
        vec![0, 0],
        // 0
        vec![0, 0],
        // 0
        vec![0, 0],
        // 0
        vec![0, 0],
        // 0
        vec![0],
        // 0
        vec![0],
        // 0
        vec![0],
        // 0
        vec![0],
        // 0
        vec![0],
        // 0
        vec![0, 0],
        // 0
        vec![0],
        // 0
        vec![0],
    ];
    kani::concrete_playback_run(concrete_vals, c17_glue_unknown_function_q);
}

/// Test generated for harness `server::task::verif_glue_server::c17_glue_unknown_function_q` 
///
/// Check for `cover`: "answered with exception 01"

#[test]
fn kani_concrete_playback_c17_glue_unknown_function_q_9066276842418866812() {
    let concrete_vals: Vec<Vec<u8>> = vec![
        // 65535
        vec![255, 255],
        // 65535
        vec![255, 255],
        // 65535
        vec![255, 255],
        // 65535
        vec![255, 255],
        // 65535
        vec![255, 255],
        // 65535
        vec![255, 255],
        // 65535
        vec![255, 255],
        // 65535
        vec![255, 255],
        // 65535
        vec![255, 255],
        // 65535
        vec![255, 255],
        // 1
        vec![1],
        // 65535
        vec![255, 255],
        // 255
        vec![255],
        // 1
        vec![1],
        // 17
        vec![17],
        // 65535
        vec![255, 255],
        // 255
        vec![255],
        // 255
        vec![255],
    ];
    kani::concrete_playback_run(concrete_vals, c17_glue_unknown_function_q);
}
