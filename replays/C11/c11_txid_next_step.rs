// concrete counterexample(s) for harness c11_txid_next_step (module verif_frame, engine rodbus)
// replay: ./check C11 --replay /verif/replays/C11/c11_txid_next_step.rs
/// Test generated for harness `common::frame::verif_frame::c11_txid_next_step` 
///
/// Check for `assertion`: ""state advances by one, wrapping after 65535""

#[test]
fn kani_concrete_playback_c11_txid_next_step_1054963595738934066() {
    let concrete_vals: Vec<Vec<u8>> = vec![
        // 65535
        vec![255, 255],
    ];
    kani::concrete_playback_run(concrete_vals, c11_txid_next_step);
}

/// Test generated for harness `common::frame::verif_frame::c11_txid_next_step` 
///
/// Check for `cover`: "initial value reached"

#[test]
fn kani_concrete_playback_c11_txid_next_step_17572113456317341622() {
    let concrete_vals: Vec<Vec<u8>> = vec![
        // 0
        vec![0, 0],
    ];
    kani::concrete_playback_run(concrete_vals, c11_txid_next_step);
}
