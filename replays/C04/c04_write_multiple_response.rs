// concrete counterexample(s) for harness c04_write_multiple_response (module verif_client_message, engine rodbus)
// replay: ./check C04 --replay /verif/replays/C04/c04_write_multiple_response.rs
/// Test generated for harness `client::message::verif_client_message::c04_write_multiple_response` 
///
/// Check for `cover`: "echo accepted"

#[test]
fn kani_concrete_playback_c04_write_multiple_response_8101331829617397502() {
    let concrete_vals: Vec<Vec<u8>> = vec![
        // 0
        vec![0],
        // 65534
        vec![254, 255],
        // 1
        vec![1],
        // 16
        vec![16],
        // 255
        vec![255],
        // 254
        vec![254],
        // 0
        vec![0],
        // 1
        vec![1],
        // 255
        vec![255],
        // 255
        vec![255],
        // 5ul
        vec![5, 0, 0, 0, 0, 0, 0, 0],
        // 3
        vec![3],
        // 2
        vec![2],
        // 1
        vec![1],
        // 65535
        vec![255, 255],
    ];
    kani::concrete_playback_run(concrete_vals, c04_write_multiple_response);
}

/// Test generated for harness `client::message::verif_client_message::c04_write_multiple_response` 
///
/// Check for `cover`: "echo mismatch rejected"

#[test]
fn kani_concrete_playback_c04_write_multiple_response_12298853025316434633() {
    let concrete_vals: Vec<Vec<u8>> = vec![
        // 1
        vec![1],
        // 65519
        vec![239, 255],
        // 0
        vec![0],
        // 15
        vec![15],
        // 0
        vec![0],
        // 0
        vec![0],
        // 0
        vec![0],
        // 0
        vec![0],
        // 255
        vec![255],
        // 255
        vec![255],
        // 5ul
        vec![5, 0, 0, 0, 0, 0, 0, 0],
        // 3
        vec![3],
        // 2
        vec![2],
        // 1
        vec![1],
        // 1
        vec![1],
        // 1
        vec![1],
    ];
    kani::concrete_playback_run(concrete_vals, c04_write_multiple_response);
}

/// Test generated for harness `client::message::verif_client_message::c04_write_multiple_response` 
///
/// Check for `cover`: "exception reply"

#[test]
fn kani_concrete_playback_c04_write_multiple_response_15856791275861235593() {
    let concrete_vals: Vec<Vec<u8>> = vec![
        // 1
        vec![1],
        // 65519
        vec![239, 255],
        // 0
        vec![0],
        // 143
        vec![143],
        // 239
        vec![239],
        // 239
        vec![239],
        // 239
        vec![239],
        // 239
        vec![239],
        // 19
        vec![19],
        // 19
        vec![19],
        // 2ul
        vec![2, 0, 0, 0, 0, 0, 0, 0],
        // 3
        vec![3],
        // 2
        vec![2],
        // 1
        vec![1],
        // 1
        vec![1],
        // 1
        vec![1],
    ];
    kani::concrete_playback_run(concrete_vals, c04_write_multiple_response);
}

/// Test generated for harness `client::message::verif_client_message::c04_write_multiple_response` 
///
/// Check for `assertion`: ""[C04] every other reply fails with an error that is not an exception""

#[test]
fn kani_concrete_playback_c04_write_multiple_response_13604555616984164345() {
    let concrete_vals: Vec<Vec<u8>> = vec![
        // 1
        vec![1],
        // 65519
        vec![239, 255],
        // 1
        vec![1],
        // 142
        vec![142],
        // 239
        vec![239],
        // 239
        vec![239],
        // 238
        vec![238],
        // 239
        vec![239],
        // 19
        vec![19],
        // 19
        vec![19],
        // 2ul
        vec![2, 0, 0, 0, 0, 0, 0, 0],
        // 3
        vec![3],
        // 2
        vec![2],
        // 1
        vec![1],
        // 1
        vec![1],
    ];
    kani::concrete_playback_run(concrete_vals, c04_write_multiple_response);
}
