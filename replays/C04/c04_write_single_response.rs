// concrete counterexample(s) for harness c04_write_single_response (module verif_client_message, engine rodbus)
// replay: ./check C04 --replay /verif/replays/C04/c04_write_single_response.rs
/// Test generated for harness `client::message::verif_client_message::c04_write_single_response` 
///
/// Check for `cover`: "echo accepted"

#[test]
fn kani_concrete_playback_c04_write_single_response_9625093504815508485() {
    let concrete_vals: Vec<Vec<u8>> = vec![
        // 1
        vec![1],
        // 58112
        vec![0, 227],
        // 65535
        vec![255, 255],
        // 5
        vec![5],
        // 227
        vec![227],
        // 0
        vec![0],
        // 255
        vec![255],
        // 0
        vec![0],
        // 255
        vec![255],
        // 255
        vec![255],
        // 5ul
        vec![5, 0, 0, 0, 0, 0, 0, 0],
        // 3
        vec![3],
        // 2
        vec![2],
        // 1
        vec![1],
        // 1
        vec![1],
    ];
    kani::concrete_playback_run(concrete_vals, c04_write_single_response);
}

/// Test generated for harness `client::message::verif_client_message::c04_write_single_response` 
///
/// Check for `cover`: "echo mismatch rejected"

#[test]
fn kani_concrete_playback_c04_write_single_response_9752466422433817818() {
    let concrete_vals: Vec<Vec<u8>> = vec![
        // 1
        vec![1],
        // 65535
        vec![255, 255],
        // 65535
        vec![255, 255],
        // 5
        vec![5],
        // 254
        vec![254],
        // 255
        vec![255],
        // 255
        vec![255],
        // 255
        vec![255],
        // 3
        vec![3],
        // 3
        vec![3],
        // 5ul
        vec![5, 0, 0, 0, 0, 0, 0, 0],
        // 3
        vec![3],
        // 2
        vec![2],
        // 1
        vec![1],
        // 1
        vec![1],
    ];
    kani::concrete_playback_run(concrete_vals, c04_write_single_response);
}

/// Test generated for harness `client::message::verif_client_message::c04_write_single_response` 
///
/// Check for `cover`: "exception reply"

#[test]
fn kani_concrete_playback_c04_write_single_response_4771971235530684956() {
    let concrete_vals: Vec<Vec<u8>> = vec![
        // 0
        vec![0],
        // 0
        vec![0, 0],
        // 65535
        vec![255, 255],
        // 134
        vec![134],
        // 6
        vec![6],
        // 6
        vec![6],
        // 6
        vec![6],
        // 6
        vec![6],
        // 251
        vec![251],
        // 251
        vec![251],
        // 2ul
        vec![2, 0, 0, 0, 0, 0, 0, 0],
        // 3
        vec![3],
        // 2
        vec![2],
        // 1
        vec![1],
    ];
    kani::concrete_playback_run(concrete_vals, c04_write_single_response);
}

/// Test generated for harness `client::message::verif_client_message::c04_write_single_response` 
///
/// Check for `assertion`: ""[C04] success only for the genuine matching reply (function code, exact length, echo)""

#[test]
fn kani_concrete_playback_c04_write_single_response_7136363195610705999() {
    let concrete_vals: Vec<Vec<u8>> = vec![
        // 1
        vec![1],
        // 65278
        vec![254, 254],
        // 65535
        vec![255, 255],
        // 5
        vec![5],
        // 254
        vec![254],
        // 254
        vec![254],
        // 254
        vec![254],
        // 254
        vec![254],
        // 3
        vec![3],
        // 3
        vec![3],
        // 5ul
        vec![5, 0, 0, 0, 0, 0, 0, 0],
        // 3
        vec![3],
        // 2
        vec![2],
        // 1
        vec![1],
        // 0
        vec![0],
    ];
    kani::concrete_playback_run(concrete_vals, c04_write_single_response);
}
