// concrete counterexample(s) for harness c03_read_limits_all (module verif_types, engine rodbus)
// replay: ./check C03 --replay /verif/replays/C03/c03_read_limits_all.rs
/// Test generated for harness `types::verif_types::c03_read_limits_all` 
///
/// Check for `assertion`: ""[C03] exactly the reads above 125 registers are refused""

#[test]
fn kani_concrete_playback_c03_read_limits_all_11609600332083869910() {
    let concrete_vals: Vec<Vec<u8>> = vec![
        // 32767
        vec![255, 127],
        // 32767
        vec![255, 127],
    ];
    kani::concrete_playback_run(concrete_vals, c03_read_limits_all);
}

/// Test generated for harness `types::verif_types::c03_read_limits_all` 
///
/// Check for `assertion`: ""[C03] at most 125 registers per read""

#[test]
fn kani_concrete_playback_c03_read_limits_all_5029509605551572886() {
    let concrete_vals: Vec<Vec<u8>> = vec![
        // 63552
        vec![64, 248],
        // 1984
        vec![192, 7],
    ];
    kani::concrete_playback_run(concrete_vals, c03_read_limits_all);
}

/// Test generated for harness `types::verif_types::c03_read_limits_all` 
///
/// Check for `cover`: "125 registers allowed"

#[test]
fn kani_concrete_playback_c03_read_limits_all_3101300895547649751() {
    let concrete_vals: Vec<Vec<u8>> = vec![
        // 61567
        vec![127, 240],
        // 125
        vec![125, 0],
    ];
    kani::concrete_playback_run(concrete_vals, c03_read_limits_all);
}
